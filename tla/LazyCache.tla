------------------------------ MODULE LazyCache ------------------------------
(***************************************************************************)
(* The lock-free publish-once caches (C18): LazyValue's decoded string     *)
(* (Inner::parse_from, an Arc<String> behind an AtomicPtr) and              *)
(* OwnedLazyValue's one-level parse (LazyRaw::load, a Box behind an        *)
(* AtomicPtr).  Every atomic operation on the shared cell is one action;    *)
(* a weak compare-exchange may fail spuriously (WeakCas).                  *)
(*                                                                         *)
(* Each thread runs one program on the SHARED value:                       *)
(*    "read"   as_str()/get():  load; if null: decode, allocate, CAS       *)
(*    "clone"  clone() then drop the clone: load; if non-null take a       *)
(*             reference (Arc variant) - the clone's own cell is private   *)
(* When all threads are done the owner drops the shared value.             *)
(***************************************************************************)
EXTENDS Naturals, FiniteSets, Sequences, TLC

CONSTANTS Threads, Prog, WeakCas      \* Prog: function thread -> "read" | "clone"
NULL == 0
MaxAlloc == Cardinality(Threads)

VARIABLES ptr,       \* the shared AtomicPtr: NULL or an allocation id
          rc,        \* allocation id -> reference count (0 = not live)
          freed,     \* ids released so far
          dbl,       \* an id was released twice / touched after release
          nextId, pc, seen, mine, result, held, crashed, sched, ownerDone
vars == <<ptr, rc, freed, dbl, nextId, pc, seen, mine, result, held, crashed, sched, ownerDone>>

Init == /\ ptr = NULL /\ rc = [i \in 1..MaxAlloc |-> 0] /\ freed = {} /\ dbl = FALSE /\ nextId = 1
        /\ pc = [t \in Threads |-> "load"]
        /\ seen = [t \in Threads |-> NULL] /\ mine = [t \in Threads |-> NULL]
        /\ result = [t \in Threads |-> NULL] /\ held = [t \in Threads |-> NULL]
        /\ crashed = FALSE /\ sched = <<>> /\ ownerDone = FALSE

Release(id) == /\ rc' = [rc EXCEPT ![id] = IF @ > 0 THEN @ - 1 ELSE 0]
               /\ freed' = IF rc[id] = 1 THEN freed \cup {id} ELSE freed
               /\ dbl' = (dbl \/ rc[id] = 0)
Log(t, a, f) == sched' = Append(sched, [t |-> t, a |-> a, fail |-> f])

\* ---- "read" ----
Load(t) == /\ pc[t] = "load" /\ Prog[t] = "read"
           /\ seen' = [seen EXCEPT ![t] = ptr]
           /\ IF ptr # NULL
              THEN /\ result' = [result EXCEPT ![t] = ptr] /\ pc' = [pc EXCEPT ![t] = "done"]
                   /\ crashed' = (crashed \/ rc[ptr] = 0)                 \* dangling dereference
              ELSE /\ pc' = [pc EXCEPT ![t] = "cas"] /\ UNCHANGED <<result, crashed>>
           \* decoding and allocating are thread-local: folded into the step that precedes the CAS
           /\ IF ptr = NULL THEN /\ mine' = [mine EXCEPT ![t] = nextId] /\ rc' = [rc EXCEPT ![nextId] = 1] /\ nextId' = nextId + 1
                            ELSE UNCHANGED <<mine, rc, nextId>>
           /\ Log(t, "load", FALSE)
           /\ UNCHANGED <<ptr, freed, dbl, held, ownerDone>>
CasOk(t) == /\ pc[t] = "cas" /\ ptr = seen[t]
            /\ ptr' = mine[t] /\ result' = [result EXCEPT ![t] = mine[t]]
            /\ pc' = [pc EXCEPT ![t] = "done"]
            /\ Log(t, "cas", FALSE)
            /\ UNCHANGED <<rc, freed, dbl, nextId, seen, mine, held, crashed, ownerDone>>
\* failure, genuine (someone else published) or spurious (weak CAS only): the loser releases its own
\* allocation and dereferences the witness
CasFail(t) == /\ pc[t] = "cas" /\ (ptr # seen[t] \/ WeakCas)
              /\ Release(mine[t])
              /\ result' = [result EXCEPT ![t] = ptr]
              /\ crashed' = (crashed \/ ptr = NULL \/ (ptr # NULL /\ rc[ptr] = 0))
              /\ pc' = [pc EXCEPT ![t] = "done"]
              /\ Log(t, "cas", ptr = seen[t])
              /\ UNCHANGED <<ptr, nextId, seen, mine, held, ownerDone>>
\* ---- "clone" (Arc variant: the clone shares the decoded string) ----
CloneLoad(t) == /\ pc[t] = "load" /\ Prog[t] = "clone"
                /\ IF ptr # NULL
                   THEN /\ rc' = [rc EXCEPT ![ptr] = @ + 1] /\ held' = [held EXCEPT ![t] = ptr]
                        /\ crashed' = (crashed \/ rc[ptr] = 0)
                   ELSE UNCHANGED <<rc, held, crashed>>
                /\ pc' = [pc EXCEPT ![t] = "dropclone"]
                /\ Log(t, "load", FALSE)
                /\ UNCHANGED <<ptr, freed, dbl, nextId, seen, mine, result, ownerDone>>
DropClone(t) == /\ pc[t] = "dropclone"
                /\ IF held[t] # NULL THEN Release(held[t]) ELSE UNCHANGED <<rc, freed, dbl>>
                /\ pc' = [pc EXCEPT ![t] = "done"]
                /\ UNCHANGED <<ptr, nextId, seen, mine, result, held, crashed, sched, ownerDone>>
\* ---- the owner drops the shared value after all threads have finished ----
AllDone == \A t \in Threads : pc[t] = "done"
OwnerDrop == /\ AllDone /\ ~ownerDone /\ ownerDone' = TRUE
             /\ IF ptr # NULL THEN Release(ptr) ELSE UNCHANGED <<rc, freed, dbl>>
             /\ UNCHANGED <<ptr, nextId, pc, seen, mine, result, held, crashed, sched>>

Next == (\E t \in Threads : Load(t) \/ CasOk(t) \/ CasFail(t) \/ CloneLoad(t) \/ DropClone(t)) \/ OwnerDrop
Spec == Init /\ [][Next]_vars

\* ---- properties ----
NoBadDeref == ~crashed                             \* never a null or dangling dereference
NoDoubleFree == ~dbl
Readers == {t \in Threads : Prog[t] = "read"}
AllAgree == \A a, b \in Readers : (pc[a] = "done" /\ pc[b] = "done") => result[a] = result[b]
\* exactly one decoding survives until the owner drops it; afterwards everything allocated is released, once
OneSurvivor == (AllDone /\ ~ownerDone /\ Readers # {}) =>
                 /\ ptr # NULL /\ rc[ptr] = 1
                 /\ \A i \in 1..(nextId - 1) : i # ptr => rc[i] = 0
AllReleased == ownerDone => \A i \in 1..(nextId - 1) : rc[i] = 0 /\ i \in freed
=============================================================================
