-------------------------------- MODULE Dom --------------------------------
(***************************************************************************)
(* The mutable DOM (C15) and the life cycle of parsed arenas (C16).        *)
(*                                                                         *)
(* Two layers over one table of container operations:                      *)
(*   model[s]  - the reference: plain trees, arrays = sequences,           *)
(*               objects = functions from keys to values                    *)
(*   slot[s] + heap (arena / vec / map with reference counts)              *)
(*             - the representation the code uses: immutable arena nodes   *)
(*               reached through counted root handles, copy-on-write       *)
(*               promotion one level at a time (Value::as_mut / to_mut,    *)
(*               Arc::make_mut), owned Arc<Vec> / Arc<Map> containers.     *)
(* Every public mutation is: promote along the path, apply a container     *)
(* operation (ArrOp / ObjOp below: a pure rearrangement of elements that   *)
(* says which elements are dropped, returned or duplicated), fix counts.   *)
(* Invariants: RcExact, NoLeakNoDangling, Refines (Abs(slot) = model),     *)
(* AllDroppedEmpty, Isolation.                                             *)
(***************************************************************************)
EXTENDS Naturals, Sequences, FiniteSets, TLC, SequencesExt

CONSTANTS Slots, MaxOps, MaxId

\* ---- the immutable node tables of the parsed documents --------------------------------
\* document 1:  {"a":[1,"s"],"b":"t"}        document 2:  [{"k":2},[3],"u"]
Nodes == <<
  [k |-> "obj", keys |-> <<"a", "b">>, kids |-> <<2, 5>>],   \* 1  root of document 1
  [k |-> "arr", kids |-> <<3, 4>>],                          \* 2
  [k |-> "num", n |-> 1],                                    \* 3
  [k |-> "str", s |-> "s"],                                  \* 4
  [k |-> "str", s |-> "t"],                                  \* 5
  [k |-> "arr", kids |-> <<7, 9, 11>>],                      \* 6  root of document 2
  [k |-> "obj", keys |-> <<"k">>, kids |-> <<8>>],           \* 7
  [k |-> "num", n |-> 2],                                    \* 8
  [k |-> "arr", kids |-> <<10>>],                            \* 9
  [k |-> "num", n |-> 3],                                    \* 10
  [k |-> "str", s |-> "u"],                                  \* 11
  [k |-> "num", n |-> 7],                                    \* 12 root of document 3 (a scalar: nothing keeps the arena)
  [k |-> "arr", kids |-> <<>>] >>                            \* 13 root of document 4 (empty container: a static node)
DocRoot == <<1, 6, 12, 13>>
DocText == <<"{\"a\":[1,\"s\"],\"b\":\"t\"}", "[{\"k\":2},[3],\"u\"]", " 7 ", "[ ]">>
\* documents that are rejected only after their arena has been built (deferred UTF-8 error, input ending in a string)
\* ('?' stands for the byte 0xFF)
BadText == <<"[\"a\",\"?\"]", "[1,2] x", "\"abc">>
Keys == {"a", "b", "k", "z"}

\* ---- representation-level values ------------------------------------------------------
Null == [k |-> "null"]
Num(n) == [k |-> "num", n |-> n]
Str(s) == [k |-> "str", s |-> s]
Arr(id) == [k |-> "arr", id |-> id]          \* owned Arc<Vec<Value>>
Obj(id) == [k |-> "obj", id |-> id]          \* owned Arc<Map<FastStr, Value>>
EArr == [k |-> "earr"]                       \* static empty array (no allocation)
EObj == [k |-> "eobj"]
Root(a, n) == [k |-> "root", a |-> a, n |-> n]   \* counted handle to node n of arena a
None == [k |-> "none"]                       \* the slot holds no value

\* de: the one deserializer / stream through which several values are obtained (Deserializer.shared: every value after the
\* first lives in one arena that the deserializer holds a handle on): [open, a (its arena), broken (a value was rejected)]
VARIABLES slot, arena, vec, map, model, nops, hist, last, de
vars == <<slot, arena, vec, map, model, nops, hist, last, de>>
DeClosed == [open |-> FALSE, a |-> 0, broken |-> FALSE]
SlotLess(p, q) == LET ss == SetToSeq(Slots) IN (CHOOSE i \in 1..Len(ss) : ss[i] = p) < (CHOOSE i \in 1..Len(ss) : ss[i] = q)
\* slots are interchangeable (positions of a vector in the harness): a new value goes to the first free slot (symmetry reduction)
FirstFree(s) == slot[s] = None /\ \A q \in Slots : slot[q] = None => ~SlotLess(q, s)
Heap == [arena |-> arena, vec |-> vec, map |-> map]
FreeA == [rc |-> 0, alive |-> FALSE]
FreeV == [rc |-> 0, used |-> FALSE, elems |-> <<>>]
FreeM == [rc |-> 0, used |-> FALSE, ents |-> <<>>]   \* ents: function key -> value (<<>> = empty function)

\* a clone of in-arena node n: scalars by value, strings/containers as a new counted root handle
\* (strings in the arena point into the arena's buffer, hence a handle as well)
NodeVal(a, n) == CASE Nodes[n].k = "num" -> Num(Nodes[n].n)
                   [] OTHER -> Root(a, n)
IsCounted(v) == v.k \in {"root", "arr", "obj"}

\* ---- plain (reference) trees ----------------------------------------------------------
PNull == [t |-> "null"]
PNum(n) == [t |-> "num", n |-> n]
PStr(s) == [t |-> "str", s |-> s]
PArr(e) == [t |-> "arr", e |-> e]
PObj(m) == [t |-> "obj", m |-> m]
PNone == [t |-> "none"]
EmptyFn == <<>>
RECURSIVE PlainNode(_)
PlainNode(n) ==
  CASE Nodes[n].k = "num" -> PNum(Nodes[n].n)
    [] Nodes[n].k = "str" -> PStr(Nodes[n].s)
    [] Nodes[n].k = "arr" -> PArr([i \in 1..Len(Nodes[n].kids) |-> PlainNode(Nodes[n].kids[i])])
    [] Nodes[n].k = "obj" -> PObj([key \in {Nodes[n].keys[i] : i \in 1..Len(Nodes[n].keys)} |->
                                    PlainNode(Nodes[n].kids[CHOOSE i \in 1..Len(Nodes[n].keys) : Nodes[n].keys[i] = key])])
RECURSIVE Abs(_, _)
Abs(h, v) ==
  CASE v.k = "null" -> PNull
    [] v.k = "num"  -> PNum(v.n)
    [] v.k = "str"  -> PStr(v.s)
    [] v.k = "earr" -> PArr(<<>>)
    [] v.k = "eobj" -> PObj(EmptyFn)
    [] v.k = "root" -> PlainNode(v.n)
    [] v.k = "arr"  -> PArr([i \in 1..Len(h.vec[v.id].elems) |-> Abs(h, h.vec[v.id].elems[i])])
    [] v.k = "obj"  -> PObj([key \in DOMAIN h.map[v.id].ents |-> Abs(h, h.map[v.id].ents[key])])
    [] v.k = "none" -> PNone

\* ---- the table of container operations (shared by both layers) ------------------------
\* An array operation maps the element sequence to
\*   [e |-> new elements, out |-> sequence of elements handed to the caller,
\*    drop |-> sequence of elements destroyed, dup |-> sequence of elements duplicated (each needs a clone),
\*    ok |-> FALSE when the reference rejects the call (index out of range ...): nothing changes]
\* x is the argument element (already a value of the layer), i / n are integer arguments.
Reject(e) == [e |-> e, out |-> <<>>, drop |-> <<>>, dup |-> <<>>, ok |-> FALSE]
Res(e, out, drop, dup) == [e |-> e, out |-> out, drop |-> drop, dup |-> dup, ok |-> TRUE]
SelectSeqIdx(e, P(_)) == LET idx == SelectSeq([j \in 1..Len(e) |-> j], P) IN [k \in 1..Len(idx) |-> e[idx[k]]]    \* elements at the 1-based positions satisfying P
RemoveAtSeq(e, i) == SubSeq(e, 1, i - 1) \o SubSeq(e, i + 1, Len(e))      \* i 1-based
InsertAtSeq(e, i, x) == SubSeq(e, 1, i - 1) \o <<x>> \o SubSeq(e, i, Len(e))
\* ("split" is not in ArrOps: it is used by the SplitOff action, which builds the new array)
ArrOps == {"push", "pop", "insert", "remove", "swap_remove", "truncate", "clear", "resize", "extend_from_within", "set", "take_elem", "append", "drain", "into_iter", "retain_even"}
ArrOp(op, e, x, i) ==
  CASE op = "push"   -> Res(Append(e, x), <<>>, <<>>, <<>>)
    [] op = "pop"    -> IF e = <<>> THEN Res(e, <<>>, <<x>>, <<>>) ELSE Res(Front(e), <<e[Len(e)]>>, <<x>>, <<>>)
    [] op = "insert" -> IF i > Len(e) THEN Reject(e) ELSE Res(InsertAtSeq(e, i + 1, x), <<>>, <<>>, <<>>)
    \* Array::remove returns nothing: the element is destroyed
    [] op = "remove" -> IF i >= Len(e) THEN Reject(e) ELSE Res(RemoveAtSeq(e, i + 1), <<>>, <<x, e[i + 1]>>, <<>>)
    \* append(other): x is the SEQUENCE of the other array's elements (moved)
    [] op = "append" -> Res(e \o x, <<>>, <<>>, <<>>)
    [] op = "swap_remove" -> IF i >= Len(e) THEN Reject(e)
                             ELSE Res(Front([e EXCEPT ![i + 1] = e[Len(e)]]), <<e[i + 1]>>, <<x>>, <<>>)
    [] op = "truncate" -> IF i >= Len(e) THEN Res(e, <<>>, <<x>>, <<>>)
                          ELSE Res(SubSeq(e, 1, i), <<>>, <<x>> \o SubSeq(e, i + 1, Len(e)), <<>>)
    [] op = "clear"  -> Res(<<>>, <<>>, <<x>> \o e, <<>>)
    \* resize(n, x): shrink drops the tail (and x); growing stores n - len copies of x (clones + the moved original)
    [] op = "resize" -> IF i <= Len(e) THEN Res(SubSeq(e, 1, i), <<>>, <<x>> \o SubSeq(e, i + 1, Len(e)), <<>>)
                        ELSE Res(e \o [j \in 1..(i - Len(e)) |-> x], <<>>, <<>>, [j \in 1..(i - Len(e) - 1) |-> x])
    \* extend_from_within(0..i): appends clones of the first i elements
    [] op = "extend_from_within" -> IF i > Len(e) THEN Reject(e) ELSE Res(e \o SubSeq(e, 1, i), <<>>, <<x>>, SubSeq(e, 1, i))
    \* array[i] = x  (IndexMut): replaces in place, the old element is destroyed
    [] op = "set"    -> IF i >= Len(e) THEN Reject(e) ELSE Res([e EXCEPT ![i + 1] = x], <<>>, <<e[i + 1]>>, <<>>)
    \* mem::take(&mut array[i]) : the element is handed out, Null stays behind (x must be the layer's Null)
    [] op = "take_elem" -> IF i >= Len(e) THEN Reject(e) ELSE Res([e EXCEPT ![i + 1] = x], <<e[i + 1]>>, <<>>, <<>>)
    \* a lookup that does not resolve (get_mut / pointer_mut step): nothing changes
    [] op = "probe" -> Reject(e)
    \* drain(..i): the first i elements are handed out in order (panics when i > len)
    [] op = "drain" -> IF i > Len(e) THEN Reject(e) ELSE Res(SubSeq(e, i + 1, Len(e)), SubSeq(e, 1, i), <<x>>, <<>>)
    \* split_off(i): the first i elements stay, the rest are moved out (into a new array, see SplitOff); panics when i > len
    [] op = "split" -> IF i > Len(e) THEN Reject(e) ELSE Res(SubSeq(e, 1, i), SubSeq(e, i + 1, Len(e)), <<x>>, <<>>)
    \* mem::take(array).into_iter(): every element is handed out in order, an empty array stays behind;
    \* the iterator's len / size_hint / as_slice report the elements not yet yielded
    [] op = "into_iter" -> Res(<<>>, e, <<x>>, <<>>)
    \* retain(|_| position is even): elements at odd 0-based positions are destroyed, order kept
    [] op = "retain_even" -> Res(SelectSeqIdx(e, LAMBDA j : j % 2 = 1), <<>>, <<x>> \o SelectSeqIdx(e, LAMBDA j : j % 2 = 0), <<>>)

\* object operations on a function m: key -> element
FnWith(m, key, x) == [q \in DOMAIN m \cup {key} |-> IF q = key THEN x ELSE m[q]]
FnWithout(m, key) == [q \in DOMAIN m \ {key} |-> m[q]]
ObjOps == {"insert", "remove", "clear", "or_insert", "set", "append", "entry_key", "and_modify", "entry_remove", "retain_not"}
ObjOp(op, m, key, x) ==
  CASE op = "insert" -> IF key \in DOMAIN m THEN Res(FnWith(m, key, x), <<m[key]>>, <<>>, <<>>)
                        ELSE Res(FnWith(m, key, x), <<>>, <<>>, <<>>)
    [] op = "remove" -> IF key \in DOMAIN m THEN Res(FnWithout(m, key), <<m[key]>>, <<x>>, <<>>)
                        ELSE Res(m, <<>>, <<x>>, <<>>)
    [] op = "clear"  -> Res(EmptyFn, <<>>, <<x>> \o (LET ks == SetToSeq(DOMAIN m) IN [i \in 1..Len(ks) |-> m[ks[i]]]), <<>>)
    \* append(other): x is the FUNCTION of the other object's members (moved); members of the same name are replaced
    [] op = "append" -> Res([q \in DOMAIN m \cup DOMAIN x |-> IF q \in DOMAIN x THEN x[q] ELSE m[q]], <<>>,
                            (LET ks == SetToSeq(DOMAIN m \cap DOMAIN x) IN [i \in 1..Len(ks) |-> m[ks[i]]]), <<>>)
    \* entry(key).or_insert(x): keeps an existing member (x is destroyed)
    [] op = "or_insert" -> IF key \in DOMAIN m THEN Res(m, <<>>, <<x>>, <<>>) ELSE Res(FnWith(m, key, x), <<>>, <<>>, <<>>)
    \* object[key] = x  (IndexMut: index-or-insert then assign)
    [] op = "set"    -> IF key \in DOMAIN m THEN Res(FnWith(m, key, x), <<>>, <<m[key]>>, <<>>) ELSE Res(FnWith(m, key, x), <<>>, <<>>, <<>>)
    [] op = "probe" -> Reject(m)
    \* entry(key).key(): reads the key back (occupied or vacant), nothing changes
    [] op = "entry_key" -> Res(m, <<>>, <<x>>, <<>>)
    \* entry(key).and_modify(|v| *v = x): assigns when the member exists, otherwise nothing happens (x is destroyed)
    [] op = "and_modify" -> IF key \in DOMAIN m THEN Res(FnWith(m, key, x), <<>>, <<m[key]>>, <<>>) ELSE Res(m, <<>>, <<x>>, <<>>)
    \* match entry(key) { Occupied(e) => Some(e.remove()), Vacant(_) => None }
    [] op = "entry_remove" -> IF key \in DOMAIN m THEN Res(FnWithout(m, key), <<m[key]>>, <<x>>, <<>>) ELSE Res(m, <<>>, <<x>>, <<>>)
    \* retain(|k, _| k != key): the member is destroyed, nothing is handed out
    [] op = "retain_not" -> IF key \in DOMAIN m THEN Res(FnWithout(m, key), <<>>, <<x, m[key]>>, <<>>) ELSE Res(m, <<>>, <<x>>, <<>>)

\* ---- reference layer ------------------------------------------------------------------
\* apply op at path p (sequence of keys / 0-based indices) of plain value v.
\* returns [v |-> new value, out |-> handed out, ok |-> ...]
\* path element: [k |-> "key", s |-> name] or [k |-> "idx", i |-> 0-based index]
PKey(name) == [k |-> "key", s |-> name]
PIdx(i) == [k |-> "idx", i |-> i]
IsKey(e) == e.k = "key"
RECURSIVE PlainAt(_, _)
PlainAt(v, p) ==
  IF p = <<>> THEN v
  ELSE LET e == Head(p) IN
       IF IsKey(e) THEN (IF v.t = "obj" /\ e.s \in DOMAIN v.m THEN PlainAt(v.m[e.s], Tail(p)) ELSE PNone)
       ELSE (IF v.t = "arr" /\ e.i < Len(v.e) THEN PlainAt(v.e[e.i + 1], Tail(p)) ELSE PNone)
RECURSIVE PlainApply(_, _, _, _, _, _)
PlainApply(v, p, kind, op, x, arg) ==
  IF p = <<>> THEN
     IF kind = "arr" /\ v.t = "arr" THEN LET r == ArrOp(op, v.e, x, arg) IN [v |-> PArr(r.e), out |-> r.out, ok |-> r.ok]
     ELSE IF kind = "obj" /\ v.t = "obj" THEN LET r == ObjOp(op, v.m, arg, x) IN [v |-> PObj(r.e), out |-> r.out, ok |-> r.ok]
     ELSE [v |-> v, out |-> <<>>, ok |-> FALSE]
  ELSE LET e == Head(p) IN
       IF IsKey(e) THEN
          IF v.t = "obj" /\ e.s \in DOMAIN v.m
          THEN LET r == PlainApply(v.m[e.s], Tail(p), kind, op, x, arg) IN [v |-> PObj([v.m EXCEPT ![e.s] = r.v]), out |-> r.out, ok |-> r.ok]
          ELSE [v |-> v, out |-> <<>>, ok |-> FALSE]
       ELSE IF v.t = "arr" /\ e.i < Len(v.e)
            THEN LET r == PlainApply(v.e[e.i + 1], Tail(p), kind, op, x, arg) IN [v |-> PArr([v.e EXCEPT ![e.i + 1] = r.v]), out |-> r.out, ok |-> r.ok]
            ELSE [v |-> v, out |-> <<>>, ok |-> FALSE]

\* paths to every node of a plain value (depth-bounded by the value itself)
RECURSIVE PathsOfPlain(_)
PathsOfPlain(v) ==
  {<<>>} \cup
  (IF v.t = "arr" THEN UNION {{<<PIdx(i - 1)>> \o q : q \in PathsOfPlain(v.e[i])} : i \in 1..Len(v.e)}
   ELSE IF v.t = "obj" THEN UNION {{<<PKey(key)>> \o q : q \in PathsOfPlain(v.m[key])} : key \in DOMAIN v.m}
   ELSE {})

\* ---- representation layer: reference counts -------------------------------------------
Inc(h, v) == CASE v.k = "root" -> [h EXCEPT !.arena[v.a].rc = @ + 1]
               [] v.k = "arr"  -> [h EXCEPT !.vec[v.id].rc = @ + 1]
               [] v.k = "obj"  -> [h EXCEPT !.map[v.id].rc = @ + 1]
               [] OTHER -> h
IncAll(h, vs) == FoldLeft(Inc, h, vs)
FnVals(m) == LET ks == SetToSeq(DOMAIN m) IN [i \in 1..Len(ks) |-> m[ks[i]]]
\* destroy a worklist of values; a container whose count reaches zero releases its elements
RECURSIVE DropAll(_, _)
DropAll(h, wl) ==
  IF wl = <<>> THEN h ELSE
  LET v == Head(wl)  rest == Tail(wl) IN
  CASE v.k = "root" ->
         LET rc == h.arena[v.a].rc - 1 IN
         DropAll([h EXCEPT !.arena[v.a] = IF rc = 0 THEN FreeA ELSE [@ EXCEPT !.rc = rc]], rest)
    [] v.k = "arr" ->
         LET rc == h.vec[v.id].rc - 1 IN
         IF rc = 0 THEN DropAll([h EXCEPT !.vec[v.id] = FreeV], h.vec[v.id].elems \o rest)
         ELSE DropAll([h EXCEPT !.vec[v.id].rc = rc], rest)
    [] v.k = "obj" ->
         LET rc == h.map[v.id].rc - 1 IN
         IF rc = 0 THEN DropAll([h EXCEPT !.map[v.id] = FreeM], FnVals(h.map[v.id].ents) \o rest)
         ELSE DropAll([h EXCEPT !.map[v.id].rc = rc], rest)
    [] OTHER -> DropAll(h, rest)
MinFree(S) == CHOOSE i \in S : \A j \in S : i <= j
FreshV(h) == MinFree({i \in 1..MaxId : ~h.vec[i].used})
FreshM(h) == MinFree({i \in 1..MaxId : ~h.map[i].used})
FreshA(h) == MinFree({i \in 1..MaxId : ~h.arena[i].alive})
\* (one action allocates at most one container per level of its path plus one: four free identifiers are always enough)
HasFresh(h) == /\ Cardinality({i \in 1..MaxId : ~h.vec[i].used}) >= 4
               /\ Cardinality({i \in 1..MaxId : ~h.map[i].used}) >= 4
               /\ \E i \in 1..MaxId : ~h.arena[i].alive

\* Value::clone(): an owned container is *shared* (Arc clone), an arena node gets a new root handle
CloneVal(h, v) == <<Inc(h, v), v>>

\* copy-on-write promotion of ONE level: Value::as_mut -> to_mut / Arc::make_mut
\* returns <<heap', value'>>; value' is an exclusively owned container when v is a container
ToMut(h, v) ==
  CASE v.k = "root" /\ Nodes[v.n].k = "arr" ->
         LET kids == [i \in 1..Len(Nodes[v.n].kids) |-> NodeVal(v.a, Nodes[v.n].kids[i])]
             id == FreshV(h)
             h1 == IncAll(h, kids)                         \* each child clone takes its own handle
             h2 == [h1 EXCEPT !.vec[id] = [rc |-> 1, used |-> TRUE, elems |-> kids]]
         IN <<DropAll(h2, <<v>>), Arr(id)>>                \* `*self = slice.into()` drops the old root handle last
    [] v.k = "root" /\ Nodes[v.n].k = "obj" ->
         LET ks == {Nodes[v.n].keys[i] : i \in 1..Len(Nodes[v.n].keys)}
             ents == [key \in ks |-> NodeVal(v.a, Nodes[v.n].kids[CHOOSE i \in 1..Len(Nodes[v.n].keys) : Nodes[v.n].keys[i] = key])]
             id == FreshM(h)
             h1 == IncAll(h, FnVals(ents))
             h2 == [h1 EXCEPT !.map[id] = [rc |-> 1, used |-> TRUE, ents |-> ents]]
         IN <<DropAll(h2, <<v>>), Obj(id)>>
    [] v.k = "earr" -> LET id == FreshV(h) IN <<[h EXCEPT !.vec[id] = [rc |-> 1, used |-> TRUE, elems |-> <<>>]], Arr(id)>>
    [] v.k = "eobj" -> LET id == FreshM(h) IN <<[h EXCEPT !.map[id] = [rc |-> 1, used |-> TRUE, ents |-> EmptyFn]], Obj(id)>>
    [] v.k = "arr" /\ h.vec[v.id].rc > 1 ->              \* Arc::make_mut: clone the Vec (each element is cloned)
         LET id == FreshV(h)
             h1 == IncAll(h, h.vec[v.id].elems)
             h2 == [h1 EXCEPT !.vec[id] = [rc |-> 1, used |-> TRUE, elems |-> h.vec[v.id].elems],
                              !.vec[v.id].rc = @ - 1]
         IN <<h2, Arr(id)>>
    [] v.k = "obj" /\ h.map[v.id].rc > 1 ->
         LET id == FreshM(h)
             h1 == IncAll(h, FnVals(h.map[v.id].ents))
             h2 == [h1 EXCEPT !.map[id] = [rc |-> 1, used |-> TRUE, ents |-> h.map[v.id].ents],
                              !.map[v.id].rc = @ - 1]
         IN <<h2, Obj(id)>>
    [] OTHER -> <<h, v>>

\* read-only navigation (no promotion); the child as `&Value` (a clone of it would be NodeVal / the element)
RECURSIVE GetRep(_, _, _)
GetRep(h, v, p) ==
  IF p = <<>> THEN v
  ELSE LET e == Head(p) IN
  CASE v.k = "root" /\ Nodes[v.n].k = "obj" /\ IsKey(e) /\ \E i \in 1..Len(Nodes[v.n].keys) : Nodes[v.n].keys[i] = e.s ->
         GetRep(h, NodeVal(v.a, Nodes[v.n].kids[CHOOSE i \in 1..Len(Nodes[v.n].keys) : Nodes[v.n].keys[i] = e.s]), Tail(p))
    [] v.k = "root" /\ Nodes[v.n].k = "arr" /\ ~IsKey(e) /\ e.i < Len(Nodes[v.n].kids) ->
         GetRep(h, NodeVal(v.a, Nodes[v.n].kids[e.i + 1]), Tail(p))
    [] v.k = "obj" /\ IsKey(e) /\ e.s \in DOMAIN h.map[v.id].ents -> GetRep(h, h.map[v.id].ents[e.s], Tail(p))
    [] v.k = "arr" /\ ~IsKey(e) /\ e.i < Len(h.vec[v.id].elems) -> GetRep(h, h.vec[v.id].elems[e.i + 1], Tail(p))
    [] OTHER -> None

\* apply a container operation at path p of representation value v (promoting every level on the way,
\* as get_mut / pointer_mut / IndexMut do).  x: argument element (ownership moves in).
\* returns [h, v, out, ok]; when the call is rejected the heap may still have been promoted (that is
\* what the code does), contents are unchanged.
RECURSIVE RepApply(_, _, _, _, _, _, _)
RepApply(h, v, p, kind, op, x, arg) ==
  LET pr == ToMut(h, v)  h1 == pr[1]  v1 == pr[2] IN
  IF p = <<>> THEN
     IF kind = "arr" /\ v1.k = "arr" THEN
        LET r == ArrOp(op, h1.vec[v1.id].elems, x, arg)
            h2 == [h1 EXCEPT !.vec[v1.id].elems = r.e]
        IN IF r.ok THEN [h |-> DropAll(IncAll(h2, r.dup), r.drop), v |-> v1, out |-> r.out, ok |-> TRUE]
           ELSE [h |-> DropAll(h1, <<x>>), v |-> v1, out |-> <<>>, ok |-> FALSE]
     ELSE IF kind = "obj" /\ v1.k = "obj" THEN
        LET r == ObjOp(op, h1.map[v1.id].ents, arg, x)
            h2 == [h1 EXCEPT !.map[v1.id].ents = r.e]
        IN [h |-> DropAll(IncAll(h2, r.dup), r.drop), v |-> v1, out |-> r.out, ok |-> r.ok]
     ELSE [h |-> DropAll(h, <<x>>), v |-> v, out |-> <<>>, ok |-> FALSE]        \* wrong kind: nothing promoted
  ELSE LET e == Head(p) IN
       IF IsKey(e) /\ v1.k = "obj" /\ e.s \in DOMAIN h1.map[v1.id].ents THEN
          LET r == RepApply(h1, h1.map[v1.id].ents[e.s], Tail(p), kind, op, x, arg)
          IN [h |-> [r.h EXCEPT !.map[v1.id].ents[e.s] = r.v], v |-> v1, out |-> r.out, ok |-> r.ok]
       ELSE IF ~IsKey(e) /\ v1.k = "arr" /\ e.i < Len(h1.vec[v1.id].elems) THEN
          LET r == RepApply(h1, h1.vec[v1.id].elems[e.i + 1], Tail(p), kind, op, x, arg)
          IN [h |-> [r.h EXCEPT !.vec[v1.id].elems[e.i + 1] = r.v], v |-> v1, out |-> r.out, ok |-> r.ok]
       ELSE [h |-> DropAll(h1, <<x>>), v |-> v1, out |-> <<>>, ok |-> FALSE]

\* ---- actions ----------------------------------------------------------------------------
Put(h) == arena' = h.arena /\ vec' = h.vec /\ map' = h.map
StepBase(rec) == /\ nops < MaxOps /\ nops' = nops + 1 /\ HasFresh(Heap)
                 /\ hist' = Append(hist, rec) /\ last' = rec
Step(rec) == StepBase(rec) /\ de' = de
Init == /\ slot = [s \in Slots |-> None] /\ model = [s \in Slots |-> PNone]
        /\ arena = [i \in 1..MaxId |-> FreeA] /\ vec = [i \in 1..MaxId |-> FreeV] /\ map = [i \in 1..MaxId |-> FreeM]
        /\ nops = 0 /\ hist = <<>> /\ last = [op |-> "init"] /\ de = DeClosed

\* from_str::<Value>(DocText[d])
Parse(s, d) ==
  /\ slot[s] = None
  /\ LET a == FreshA(Heap)  n == DocRoot[d]
         static == Nodes[n].k = "num" \/ (Nodes[n].k = "arr" /\ Nodes[n].kids = <<>>)
     IN \* a scalar or empty-container root is copied out as a static node: the arena made for the parse dies with it
        IF static THEN /\ UNCHANGED arena
                       /\ slot' = [slot EXCEPT ![s] = IF Nodes[n].k = "num" THEN Num(Nodes[n].n) ELSE EArr]
        ELSE /\ arena' = [arena EXCEPT ![a] = [rc |-> 1, alive |-> TRUE]]
             /\ slot' = [slot EXCEPT ![s] = Root(a, n)]
  /\ model' = [model EXCEPT ![s] = PlainNode(DocRoot[d])]
  /\ UNCHANGED <<vec, map>>
  /\ Step([op |-> "parse", s |-> s, d |-> d, text |-> DocText[d]])
\* from_slice::<Value>(text) of a document that is rejected: nothing is returned, nothing stays alive
ParseRejected(b) ==
  /\ UNCHANGED <<slot, model, arena, vec, map>>
  /\ Step([op |-> "parse_bad", text |-> BadText[b]])
\* ---- several values through one deserializer (Deserializer::deserialize::<Value>() repeatedly / a stream) ----
\* The deserializer is opened by the first call (the harness lets it consume a leading scalar, so every value below is a
\* "later" value: built in the deserializer's shared arena).  Values have independent lifetimes: each is a handle on the
\* shared arena, which lives until the deserializer AND every value are gone.
DeNext(s, d) ==
  /\ slot[s] = None /\ ~de.broken
  /\ LET n == DocRoot[d]
         static == Nodes[n].k = "num" \/ (Nodes[n].k = "arr" /\ Nodes[n].kids = <<>>)
         a == IF de.open THEN de.a ELSE FreshA(Heap)
         base == IF de.open THEN arena[a].rc ELSE 1                    \* the deserializer's own handle
     IN /\ arena' = [arena EXCEPT ![a] = [rc |-> base + (IF static THEN 0 ELSE 1), alive |-> TRUE]]
        /\ slot' = [slot EXCEPT ![s] = IF static THEN (IF Nodes[n].k = "num" THEN Num(Nodes[n].n) ELSE EArr) ELSE Root(a, n)]
        /\ de' = [open |-> TRUE, a |-> a, broken |-> FALSE]
  /\ model' = [model EXCEPT ![s] = PlainNode(DocRoot[d])]
  /\ UNCHANGED <<vec, map>>
  /\ StepBase([op |-> "de_next", s |-> s, d |-> d, text |-> DocText[d]])
\* a value of the stream is rejected; the caller keeps calling (results of those calls are not predicted): nothing that was
\* handed out before may change
DeBad ==
  /\ de.open /\ ~de.broken
  /\ de' = [de EXCEPT !.broken = TRUE]
  /\ UNCHANGED <<slot, model, arena, vec, map>>
  /\ StepBase([op |-> "de_bad"])
\* the deserializer (and its input) go away
DeClose ==
  /\ de.open
  /\ arena' = [arena EXCEPT ![de.a] = [rc |-> @.rc - 1, alive |-> @.rc - 1 > 0]]
  /\ de' = DeClosed
  /\ UNCHANGED <<slot, model, vec, map>>
  /\ StepBase([op |-> "de_close"])
\* a value built without parsing: json!([]) / Value::new_array() / object / scalar
New(s, what) ==
  /\ slot[s] = None
  /\ what \in {"arr", "obj", "num", "null"}
  /\ slot' = [slot EXCEPT ![s] = CASE what = "arr" -> EArr [] what = "obj" -> EObj [] what = "null" -> Null [] OTHER -> Num(7)]
  /\ model' = [model EXCEPT ![s] = CASE what = "arr" -> PArr(<<>>) [] what = "obj" -> PObj(EmptyFn) [] what = "null" -> PNull [] OTHER -> PNum(7)]
  /\ UNCHANGED <<arena, vec, map>>
  /\ Step([op |-> "new", s |-> s, what |-> what])
\* json!({"a": 8}) / json!([8, 9]): built values are owned containers from the start
Build(s, what) ==
  /\ slot[s] = None /\ what \in {"obj1", "arr2"}
  /\ IF what = "obj1"
     THEN LET id == FreshM(Heap) IN
          /\ map' = [map EXCEPT ![id] = [rc |-> 1, used |-> TRUE, ents |-> [q \in {"a"} |-> Num(8)]]]
          /\ slot' = [slot EXCEPT ![s] = Obj(id)] /\ UNCHANGED <<arena, vec>>
          /\ model' = [model EXCEPT ![s] = PObj([q \in {"a"} |-> PNum(8)])]
     ELSE LET id == FreshV(Heap) IN
          /\ vec' = [vec EXCEPT ![id] = [rc |-> 1, used |-> TRUE, elems |-> <<Num(8), Num(9)>>]]
          /\ slot' = [slot EXCEPT ![s] = Arr(id)] /\ UNCHANGED <<arena, map>>
          /\ model' = [model EXCEPT ![s] = PArr(<<PNum(8), PNum(9)>>)]
  /\ Step([op |-> "build", s |-> s, what |-> what])
\* t = s.pointer(p).clone()      (p = <<>> : plain clone)
Clone(s, p, t) ==
  /\ slot[s] # None /\ slot[t] = None /\ PlainAt(model[s], p) # PNone
  /\ LET c == GetRep(Heap, slot[s], p) IN
     /\ Put(Inc(Heap, c))
     /\ slot' = [slot EXCEPT ![t] = c]
  /\ model' = [model EXCEPT ![t] = PlainAt(model[s], p)]
  /\ Step([op |-> "clone", s |-> s, p |-> p, t |-> t])
Drop(s) ==
  /\ slot[s] # None
  /\ Put(DropAll(Heap, <<slot[s]>>))
  /\ slot' = [slot EXCEPT ![s] = None]
  /\ model' = [model EXCEPT ![s] = PNone]
  /\ Step([op |-> "drop", s |-> s])
\* t = s.take()      (mem::take: s becomes Null)
Take(s, t) ==
  /\ slot[s] # None /\ slot[t] = None
  /\ slot' = [slot EXCEPT ![t] = slot[s], ![s] = Null]
  /\ model' = [model EXCEPT ![t] = model[s], ![s] = PNull]
  /\ UNCHANGED <<arena, vec, map>>
  /\ Step([op |-> "take", s |-> s, t |-> t])
\* a container operation on the container at path p of slot s.
\* src: where the argument element comes from: "lit" (Num 7), "null", or a slot u whose value is MOVED in.
\* Elements handed out (pop / remove / insert-replace ...) are put into slot o when one is free, else destroyed.
ArgRep(src) == IF src = "lit" THEN Num(7) ELSE IF src = "null" THEN Null ELSE slot[src]
ArgPlain(src) == IF src = "lit" THEN PNum(7) ELSE IF src = "null" THEN PNull ELSE model[src]
Mutate(s, p, kind, op, src, arg, o) ==
  /\ slot[s] # None /\ (src \in Slots => (src # s /\ slot[src] # None))
  /\ PlainAt(model[s], p) # PNone /\ PlainAt(model[s], p).t = kind
  /\ (op = "take_elem" => src = "null") /\ (op # "take_elem" => src # "null")
  /\ (op \in {"pop", "remove", "swap_remove", "truncate", "clear", "extend_from_within", "take_elem", "drain", "into_iter", "retain_even",
              "entry_key", "entry_remove", "retain_not"} => src \in {"lit", "null"})
  /\ LET r == RepApply(Heap, slot[s], p, kind, op, ArgRep(src), arg)
         pm == PlainApply(model[s], p, kind, op, ArgPlain(src), arg)
         keepOut == r.out # <<>> /\ o # s /\ slot[o] = None
         h2 == IF keepOut THEN DropAll(r.h, Tail(r.out)) ELSE DropAll(r.h, r.out)
     IN /\ Put(h2)
        /\ slot' = [q \in Slots |-> IF q = s THEN r.v
                                    ELSE IF q = src THEN None
                                    ELSE IF q = o /\ keepOut THEN r.out[1] ELSE slot[q]]
        /\ model' = [q \in Slots |-> IF q = s THEN pm.v
                                     ELSE IF q = src THEN PNone
                                     ELSE IF q = o /\ keepOut /\ pm.out # <<>> THEN pm.out[1] ELSE model[q]]
        /\ Step([op |-> "mut", s |-> s, p |-> p, kind |-> kind, f |-> op, src |-> src, arg |-> arg, o |-> o,
                 ok |-> pm.ok, out |-> IF pm.out = <<>> THEN PNone ELSE pm.out[1], outs |-> pm.out])

\* get_mut(e) / pointer_mut([.., e]) at the value at path p where e does not resolve there (missing key, index out of range,
\* key into an array, index into an object, anything into a scalar or null): answers None and changes no contents.  The
\* containers on the way, and the target when its kind matches e, are promoted as every &mut access does.
Probe(s, p, e) ==
  /\ slot[s] # None /\ PlainAt(model[s], p) # PNone /\ PlainAt(model[s], p \o <<e>>) = PNone
  /\ LET r == RepApply(Heap, slot[s], p, IF IsKey(e) THEN "obj" ELSE "arr", "probe", Num(7), IF IsKey(e) THEN e.s ELSE e.i)
     IN /\ Put(r.h) /\ slot' = [slot EXCEPT ![s] = r.v]
  /\ UNCHANGED model
  /\ Step([op |-> "probe", s |-> s, p |-> p, e |-> e])

\* o = array_at_p.split_off(i): the tail becomes a new array (an owned container of its own) in a free slot
SplitOff(s, p, i, o) ==
  /\ slot[s] # None /\ o # s /\ FirstFree(o)
  /\ PlainAt(model[s], p) # PNone /\ PlainAt(model[s], p).t = "arr"
  /\ LET r == RepApply(Heap, slot[s], p, "arr", "split", Num(7), i)
         pm == PlainApply(model[s], p, "arr", "split", PNum(7), i)
         id == FreshV(r.h)
         h2 == IF r.ok THEN [r.h EXCEPT !.vec[id] = [rc |-> 1, used |-> TRUE, elems |-> r.out]] ELSE r.h
     IN /\ Put(h2)
        /\ slot' = [slot EXCEPT ![s] = r.v, ![o] = IF r.ok THEN Arr(id) ELSE None]
        /\ model' = [model EXCEPT ![s] = pm.v, ![o] = IF pm.ok THEN PArr(pm.out) ELSE PNone]
        /\ Step([op |-> "split_off", s |-> s, p |-> p, i |-> i, o |-> o, ok |-> pm.ok])

\* value_at_p[key] = x where the value at p is null: IndexMut treats null like an empty object (documented), so it becomes
\* the object {key: x}.  p = <<>> is the slot itself; otherwise the null is a member / element of the container at Front(p).
IndexNull(s, p, key, src) ==
  /\ slot[s] # None /\ (src \in Slots => (src # s /\ slot[src] # None))
  /\ PlainAt(model[s], p) = PNull
  /\ LET id == FreshM(Heap)
         h0 == [Heap EXCEPT !.map[id] = [rc |-> 1, used |-> TRUE, ents |-> [q \in {key} |-> ArgRep(src)]]]
         newP == PObj([q \in {key} |-> ArgPlain(src)])
         lastE == p[Len(p)]
         kind == IF IsKey(lastE) THEN "obj" ELSE "arr"
         r == RepApply(h0, slot[s], SubSeq(p, 1, Len(p) - 1), kind, "set", Obj(id), IF IsKey(lastE) THEN lastE.s ELSE lastE.i)
         pm == PlainApply(model[s], SubSeq(p, 1, Len(p) - 1), kind, "set", newP, IF IsKey(lastE) THEN lastE.s ELSE lastE.i)
     IN IF p = <<>>
        THEN /\ Put(h0)
             /\ slot' = [q \in Slots |-> IF q = s THEN Obj(id) ELSE IF q = src THEN None ELSE slot[q]]
             /\ model' = [q \in Slots |-> IF q = s THEN newP ELSE IF q = src THEN PNone ELSE model[q]]
        ELSE /\ Put(r.h)
             /\ slot' = [q \in Slots |-> IF q = s THEN r.v ELSE IF q = src THEN None ELSE slot[q]]
             /\ model' = [q \in Slots |-> IF q = s THEN pm.v ELSE IF q = src THEN PNone ELSE model[q]]
  /\ Step([op |-> "index_null", s |-> s, p |-> p, key |-> key, src |-> src])

\* target.append(&mut other): all members of the container in slot src move into the container at path p of slot s;
\* src stays an (empty) container.  Both sides are promoted (as_mut) first.
AppendFrom(s, p, kind, src) ==
  /\ s # src /\ slot[s] # None /\ slot[src] # None
  /\ PlainAt(model[s], p) # PNone /\ PlainAt(model[s], p).t = kind /\ model[src].t = kind
  /\ LET pr == ToMut(Heap, slot[src])  h1 == pr[1]  sv == pr[2]
         xs == IF kind = "arr" THEN h1.vec[sv.id].elems ELSE h1.map[sv.id].ents
         h2 == IF kind = "arr" THEN [h1 EXCEPT !.vec[sv.id].elems = <<>>] ELSE [h1 EXCEPT !.map[sv.id].ents = EmptyFn]
         r == RepApply(h2, slot[s], p, kind, "append", xs, "")
         pm == PlainApply(model[s], p, kind, "append", IF kind = "arr" THEN model[src].e ELSE model[src].m, "")
     IN /\ Put(r.h)
        /\ slot' = [slot EXCEPT ![s] = r.v, ![src] = sv]
        /\ model' = [model EXCEPT ![s] = pm.v, ![src] = IF kind = "arr" THEN PArr(<<>>) ELSE PObj(EmptyFn)]
        /\ Step([op |-> "append", s |-> s, p |-> p, kind |-> kind, src |-> src])

ContainerPaths(s) == {p \in PathsOfPlain(model[s]) : PlainAt(model[s], p).t \in {"arr", "obj"}}
\* handed-out elements go to some free slot (if any) other than the ones involved
OutSlot(s, src) == LET free == {q \in Slots : q # s /\ q # src /\ slot[q] = None} IN
                   IF free = {} THEN s ELSE CHOOSE q \in free : TRUE
Consuming == {"push", "insert", "set", "resize"}
Next ==
  \/ \E s \in Slots, d \in 1..Len(DocRoot) : FirstFree(s) /\ Parse(s, d)
  \/ \E b \in 1..Len(BadText) : ParseRejected(b)
  \/ \E s \in Slots, w \in {"arr", "obj", "num", "null"} : FirstFree(s) /\ New(s, w)
  \/ \E s \in Slots, w \in {"obj1", "arr2"} : FirstFree(s) /\ Build(s, w)
  \/ \E s, src \in Slots, kind \in {"arr", "obj"} : \E p \in (IF slot[s] = None THEN {} ELSE ContainerPaths(s)) : AppendFrom(s, p, kind, src)
  \/ \E s, t \in Slots : s # t /\ FirstFree(t) /\ \E p \in (IF slot[s] = None THEN {} ELSE PathsOfPlain(model[s])) : Clone(s, p, t)
  \/ \E s \in Slots : Drop(s)
  \/ \E s \in Slots, d \in {1, 3} : FirstFree(s) /\ DeNext(s, d)
  \/ DeBad \/ DeClose
  \/ \E s \in Slots, e \in {PKey("z"), PIdx(5)} : \E p \in (IF slot[s] = None THEN {} ELSE {q \in PathsOfPlain(model[s]) : Len(q) <= 1}) : Probe(s, p, e)
  \/ \E s, t \in Slots : s # t /\ FirstFree(t) /\ Take(s, t)
  \/ \E s \in Slots, src \in {"lit"} \cup Slots : \E p \in (IF slot[s] = None THEN {} ELSE {q \in PathsOfPlain(model[s]) : Len(q) <= 1}) : IndexNull(s, p, "a", src)
  \/ \E s, o \in Slots, i \in {0, 1, 3} : \E p \in (IF slot[s] = None THEN {} ELSE ContainerPaths(s)) : SplitOff(s, p, i, o)
  \/ \E s \in Slots : \E p \in (IF slot[s] = None THEN {} ELSE ContainerPaths(s)) :
       \/ \E op \in Consuming, src \in {"lit"} \cup (Slots \ {s}), i \in {0, 2} : Mutate(s, p, "arr", op, src, i, OutSlot(s, src))
       \/ \E op \in ArrOps \ (Consuming \cup {"take_elem", "append", "into_iter", "retain_even"}), i \in {0, 1} : Mutate(s, p, "arr", op, "lit", i, OutSlot(s, "lit"))
       \/ \E op \in {"into_iter", "retain_even"} : Mutate(s, p, "arr", op, "lit", 0, OutSlot(s, "lit"))
       \/ Mutate(s, p, "arr", "drain", "lit", 2, OutSlot(s, "lit"))
       \/ \E i \in {0, 1} : Mutate(s, p, "arr", "take_elem", "null", i, OutSlot(s, "null"))
       \/ \E op \in {"insert", "or_insert", "set"}, src \in {"lit"} \cup (Slots \ {s}), key \in {"a", "z"} : Mutate(s, p, "obj", op, src, key, OutSlot(s, src))
       \/ \E key \in {"a", "z"} : Mutate(s, p, "obj", "and_modify", "lit", key, OutSlot(s, "lit"))
       \/ \E op \in {"remove", "clear", "entry_key", "entry_remove", "retain_not"}, key \in {"a", "z"} : Mutate(s, p, "obj", op, "lit", key, OutSlot(s, "lit"))
Spec == Init /\ [][Next]_vars

\* ---- invariants -------------------------------------------------------------------------
AllVals == LET ss == SetToSeq(Slots)  sv == [i \in 1..Len(ss) |-> slot[ss[i]]]
               vv == FoldLeft(LAMBDA acc, i : IF vec[i].used THEN acc \o vec[i].elems ELSE acc, <<>>, [i \in 1..MaxId |-> i])
               mv == FoldLeft(LAMBDA acc, i : IF map[i].used THEN acc \o FnVals(map[i].ents) ELSE acc, <<>>, [i \in 1..MaxId |-> i])
           IN sv \o vv \o mv
Count(P(_)) == Cardinality({i \in 1..Len(AllVals) : P(AllVals[i])})
\* every reference count equals the number of live handles
RcExact == /\ \A a \in 1..MaxId : arena[a].rc = Count(LAMBDA v : v.k = "root" /\ v.a = a) + (IF de.open /\ de.a = a THEN 1 ELSE 0)
           /\ \A i \in 1..MaxId : vec[i].rc = Count(LAMBDA v : v.k = "arr" /\ v.id = i)
           /\ \A i \in 1..MaxId : map[i].rc = Count(LAMBDA v : v.k = "obj" /\ v.id = i)
\* an arena / container is alive exactly while it is referenced: freed once, never dangling
NoLeakNoDangling == /\ \A a \in 1..MaxId : arena[a].alive <=> arena[a].rc > 0
                    /\ \A i \in 1..MaxId : vec[i].used <=> vec[i].rc > 0
                    /\ \A i \in 1..MaxId : map[i].used <=> map[i].rc > 0
\* the representation denotes the reference model in every slot (C15), in particular
\* mutation of one slot never changes another (Isolation follows: model[q] is unchanged for q # s)
Refines == \A s \in Slots : Abs(Heap, slot[s]) = model[s]
AllDroppedEmpty == (~de.open /\ \A s \in Slots : slot[s].k \in {"none", "null", "num", "str", "earr", "eobj"}) =>
                     \A i \in 1..MaxId : ~arena[i].alive /\ ~vec[i].used /\ ~map[i].used
LiveArenas == Cardinality({a \in 1..MaxId : arena[a].alive})
=============================================================================
