--------------------------- MODULE MC_JsonText ---------------------------
(* Exhaustive small-scope check of JsonText: every class string up to MaxLen
   (mode-dependent bisimulation quotient of the alphabet), strict and lax
   machines side by side, operational vs declarative; emits every explored
   text with its verdicts, the next-step partition of the alphabet, the
   self-loop classes and (when accepted) the denoted value with spans.      *)
EXTENDS JsonText, Json
CONSTANTS MaxLen, EmitOn

VARIABLES s, sl, text
vars == <<s, sl, text>>

PairStep(c) == <<StepOp(s, c), StepOp(sl, c)>>
ReprP == {c \in Cls : \A c2 \in Cls : (PairStep(c2) = PairStep(c)) => Idx(c) <= Idx(c2)}
Partition == {{c2 \in Cls : PairStep(c2) = PairStep(c)} : c \in ReprP}
Loops == {c \in Cls : PairStep(c) = <<s, sl>>}

Init == s = Init0(FALSE) /\ sl = Init0(TRUE) /\ text = <<>>
Next == /\ ~(s.m = "rej" /\ sl.m = "rej") /\ Len(text) < MaxLen
        /\ \E c \in ReprP : s' = StepOp(s, c) /\ sl' = StepOp(sl, c) /\ text' = Append(text, c)
Spec == Init /\ [][Next]_vars

CanonBytes(t) == [i \in 1..Len(t) |-> Canon(t[i])]

AgreeStrict == AcceptingEnd(s) <=> IsJson(text, FALSE)
AgreeLax    == AcceptingEnd(sl) <=> IsJson(text, TRUE)
StrictImpliesLax == AcceptingEnd(s) => AcceptingEnd(sl)
\* a rejected strict machine with an accepting lax machine differs only by surrogate pairing
BuilderAgrees ==
  LET bytes == CanonBytes(text)
      r == BRun(bytes, FALSE)  rl == BRun(bytes, TRUE)
      pl == PRun(bytes, TRUE)  pok == pl.root # NoVal
      fv == FirstValue(text, TRUE)
      w == <<"[">> \o text \o <<"]">>  rw == BRun(CanonBytes(w), TRUE)
  IN
  /\ (r.s.m = "end") <=> AcceptingEnd(s)
  /\ (rl.s.m = "end") <=> AcceptingEnd(sl)
  /\ AcceptingEnd(s) => (r.root.a >= 0 /\ r.root.z <= Len(text) /\ r.vs = <<>>)
  /\ AcceptingEnd(s) => Strip(r.root) = Strip(rl.root)     \* lax reading = strict reading on strict-valid text
  /\ AcceptingEnd(s) => ~rl.badsur
  \* whole-text acceptance implies prefix acceptance with the same value
  /\ AcceptingEnd(sl) => (pok /\ pl.root = rl.root)
  \* prefix semantics agrees with the declarative grammar's first value
  /\ pok <=> (fv # <<0, 0>>)
  /\ pok => (pl.root.a = fv[1] - 1 /\ pl.root.z = fv[2] - 1)
  \* embedding lemma used by the conformance harness: [TEXT] as a 1-tuple
  /\ (AcceptingEnd(sl) => ValEnd(text, WsEnd(text, 1), MaxDepth - 1, TRUE) # 0) =>
       (AcceptingEnd(sl) <=> (rw.s.m = "end" /\ rw.root.t = "arr" /\ Len(rw.root.e) = 1))

ASSUME \A b \in 0..255 : Class(b) \in Cls
ASSUME \A c \in Cls : Class(Canon(c)) = c

Emit ==
  EmitOn =>
  LET bytes == CanonBytes(text)
      r == BRun(bytes, FALSE)
      rl == BRun(bytes, TRUE)
      live == ~(s.m = "rej" /\ sl.m = "rej")
  IN PrintT(<<"B", ToJson([t |-> text,
                           acc |-> (AcceptingEnd(s) /\ ~r.inf),
                           lax |-> AcceptingEnd(sl),
                           gram |-> AcceptingEnd(s),
                           part |-> IF live THEN Partition ELSE {},
                           loops |-> IF live THEN Loops ELSE {},
                           v |-> IF AcceptingEnd(sl) THEN rl.root ELSE NoVal,
                           badsur |-> rl.badsur,
                           dsafe |-> ~rl.bigexp,
                           pacc |-> PrefixOk(bytes, FALSE),
                           plax |-> PrefixOk(bytes, TRUE),
                           pamb |-> PrefixAmbiguous(bytes, TRUE),
                           plossy |-> (PrefixOk(bytes, TRUE) /\ ~PRun(bytes, TRUE).inf),
                           praw |-> (PRun(bytes, FALSE).root # NoVal),
                           pv |-> IF PrefixOk(bytes, TRUE) THEN PRun(bytes, TRUE).root ELSE NoVal])>>)
=============================================================================
