CONSTANTS
  EmitOn = FALSE
INIT Init
NEXT Next
INVARIANTS Laws Emit
CHECK_DEADLOCK FALSE
