CONSTANTS
  MaxDepth = 100000
  Checks = {"c04"}
INIT Init
NEXT Next
POSTCONDITION TraceAccepted
CHECK_DEADLOCK FALSE
