------------------------------ MODULE MC_Writer ------------------------------
(* Every sequence of up to MaxOps calls {write, reserve+commit, flush} with distinguishable chunks over a set of writer
   stacks (incl. failing sinks at every limit), every resolution of the BufWriter's buffering choice.               *)
EXTENDS Writer, TLC, Json
CONSTANTS MaxOps, EmitOn, OldReserve
Stacks == [ vec |-> <<Layer("vec", 0)>>,
            boxref |-> <<Layer("box", 0), Layer("ref", 0), Layer("vec", 0)>>,
            buffered |-> <<Layer("buffered", 0), Layer("sink", 99)>>,
            iobuf_vec |-> <<Layer("iobuf", 0), Layer("vec", 0)>>,
            iobuf_buffered |-> <<Layer("iobuf", 0), Layer("buffered", 0), Layer("sink", 99)>>,
            ref_iobuf_box_vec |-> <<Layer("ref", 0), Layer("iobuf", 0), Layer("box", 0), Layer("vec", 0)>>,
            iobuf_iobuf_vec |-> <<Layer("iobuf", 0), Layer("iobuf", 0), Layer("vec", 0)>>,
            buffered_fail2 |-> <<Layer("buffered", 0), Layer("sink", 2)>>,
            buffered_fail4 |-> <<Layer("buffered", 0), Layer("sink", 4)>>,
            iobuf_buffered_fail3 |-> <<Layer("iobuf", 0), Layer("buffered", 0), Layer("sink", 3)>> ]
VARIABLES name, st, issued, ops, flushed
vars == <<name, st, issued, ops, flushed>>
Chunk(n) == [i \in 1..((n % 3) + 1) |-> 10 * n + i]          \* the n-th call issues 1..3 distinguishable bytes
Init == name \in DOMAIN Stacks /\ st = InitW(Stacks[name]) /\ issued = <<>> /\ ops = <<>> /\ flushed = TRUE
Next ==
  /\ Len(ops) < MaxOps
  /\ LET stack == Stacks[name]  n == Len(ops) + 1 IN
     \/ \E keep \in BOOLEAN : /\ st' = WriteAt(stack, st, 1, Chunk(n), keep) /\ issued' = issued \o Chunk(n)
                              /\ ops' = Append(ops, [op |-> "write", bytes |-> Chunk(n)]) /\ flushed' = FALSE
     \/ /\ st' = (IF OldReserve THEN ReserveAtOld(stack, st, 1, Chunk(n)) ELSE ReserveAt(stack, st, 1, Chunk(n))) /\ issued' = issued \o Chunk(n)
        /\ ops' = Append(ops, [op |-> "reserve", bytes |-> Chunk(n)]) /\ flushed' = FALSE
     \/ /\ st' = FlushAt(stack, st, 1) /\ issued' = issued /\ ops' = Append(ops, [op |-> "flush"]) /\ flushed' = TRUE
  /\ UNCHANGED name
\* C05 on the design: order is kept, nothing is invented, nothing is lost
InOrder == IF st.failed THEN IsPrefix2(st.out, issued)
           ELSE st.out \o Pending(Stacks[name], st) = issued
AfterFlush == (flushed /\ ~st.failed) => st.out = issued
FailingSinkFails == (flushed /\ ops # <<>> /\ \E i \in 1..Len(Stacks[name]) : Stacks[name][i].k = "sink" /\ Stacks[name][i].limit < Len(issued)) => st.failed
Emit == (EmitOn /\ Len(ops) = MaxOps) => PrintT(<<"B", ToJson([stack |-> Stacks[name], name |-> name, ops |-> ops, issued |-> issued])>>)
=============================================================================
