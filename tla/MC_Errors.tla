----------------------------- MODULE MC_Errors -----------------------------
(* Small-scope self-check of the LineCol convention: over all byte strings <= 5 drawn from
   {'a', '\n', '\r'} and every offset, (line, col) is consistent with a direct definition. *)
EXTENDS Errors, FiniteSets, TLC
VARIABLES txt
Alphabet == {97, 10, 13}
Init == txt = <<>>
Next == Len(txt) < 5 /\ \E b \in Alphabet : txt' = Append(txt, b)
Direct(t, off) ==
  LET nl == {i \in 1..off : t[i] = 10}
      last == IF nl = {} THEN 0 ELSE CHOOSE i \in nl : \A j \in nl : j <= i
  IN <<1 + Cardinality(nl), off - last>>
LineColOk == \A off \in 0..Len(txt) : LineCol(txt, off) = Direct(txt, off)
ClampOk == LineCol(txt, Len(txt) + 3) = LineCol(txt, Len(txt))
=============================================================================
