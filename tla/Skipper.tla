------------------------------- MODULE Skipper -------------------------------
(***************************************************************************)
(* The bitmap container skipper (src/parser.rs: skip_container,            *)
(* skip_container_loop, get_string_bits, get_escaped_branchless_u64).      *)
(*                                                                         *)
(* Two formulations:                                                       *)
(*  - Ref*:   a scalar machine reading one byte at a time (what skipping   *)
(*            to the matching bracket MEANS): a byte preceded by an odd    *)
(*            run of backslashes is escaped, an unescaped quote toggles    *)
(*            "in string", brackets outside strings are counted, the       *)
(*            container closes at the first right bracket that makes the   *)
(*            right count exceed the left count.                           *)
(*  - Blk*:   the bit-parallel step the code performs on a block of B      *)
(*            bytes with four words of carried state (the add-carry trick  *)
(*            for escapes, prefix xor for strings, popcounts for the       *)
(*            bracket balance).  B is a parameter: model-checked against   *)
(*            Ref for small B, evaluated at B = 64 on recorded blocks.     *)
(* Bit masks are sequences of 0/1, index 1 = bit 0 = first byte.           *)
(***************************************************************************)
EXTENDS Naturals, Sequences, FiniteSets, SequencesExt

BS == 92   QT == 34

\* ---- scalar reference ----------------------------------------------------------------
\* state: esc (the next byte is escaped), ins (inside a string), l / r (brackets seen outside strings), closed (0 or the
\* 1-based position, counted from the start of the current block, of the closing bracket)
RefInit == [esc |-> 0, ins |-> 0, l |-> 0, r |-> 0]
RefByte(s, c, left, right) ==
  IF s.esc = 1 THEN [s EXCEPT !.esc = 0]
  ELSE IF c = BS THEN [s EXCEPT !.esc = 1]
  ELSE IF c = QT THEN [s EXCEPT !.ins = 1 - s.ins]
  ELSE IF s.ins = 1 THEN s
  ELSE IF c = left THEN [s EXCEPT !.l = s.l + 1]
  ELSE IF c = right THEN [s EXCEPT !.r = s.r + 1]
  ELSE s
\* Precondition of the skipper (it is only used where the input is well-formed as far as strings go): a backslash occurs
\* inside a string only.  (Outside strings the code lets an "escaped" bracket count, the reference above would not;
\* both agree whenever the precondition holds.)
BackslashOnlyInStrings(s0, block) ==
  FoldLeft(LAMBDA acc, i : IF ~acc.ok THEN acc
                           ELSE [ok |-> ~(block[i] = BS /\ acc.s.ins = 0 /\ acc.s.esc = 0), s |-> RefByte(acc.s, block[i], 0, 0)],
           [ok |-> TRUE, s |-> s0], [i \in 1..Len(block) |-> i]).ok
\* one block: stop at the closing bracket.  Result [s |-> state after the block (meaningful when not closed), res |-> 0 or position]
RefBlock(s0, block, left, right) ==
  FoldLeft(LAMBDA acc, i : IF acc.res # 0 THEN acc
                           ELSE LET s1 == RefByte(acc.s, block[i], left, right) IN
                                IF s1.r > s1.l THEN [s |-> s1, res |-> i] ELSE [s |-> s1, res |-> 0],
           [s |-> s0, res |-> 0], [i \in 1..Len(block) |-> i])

\* ---- bit-parallel formulation (as the code computes it) --------------------------------
Zero(n) == [i \in 1..n |-> 0]
And(a, b) == [i \in 1..Len(a) |-> IF a[i] = 1 /\ b[i] = 1 THEN 1 ELSE 0]
Or(a, b)  == [i \in 1..Len(a) |-> IF a[i] = 1 \/ b[i] = 1 THEN 1 ELSE 0]
Xor(a, b) == [i \in 1..Len(a) |-> (a[i] + b[i]) % 2]
Not(a)    == [i \in 1..Len(a) |-> 1 - a[i]]
Shl1(a)   == [i \in 1..Len(a) |-> IF i = 1 THEN 0 ELSE a[i - 1]]          \* a << 1 (towards later bytes)
EvenBits(n) == [i \in 1..n |-> IF i % 2 = 1 THEN 1 ELSE 0]               \* 0x5555...: bits 0, 2, 4, ...
PopCount(a) == Cardinality({i \in 1..Len(a) : a[i] = 1})
\* binary addition with carry out: [sum, carry]
AddBits(a, b) ==
  LET r == FoldLeft(LAMBDA acc, i : LET t == a[i] + b[i] + acc.c IN [sum |-> Append(acc.sum, t % 2), c |-> t \div 2],
                    [sum |-> <<>>, c |-> 0], [i \in 1..Len(a) |-> i])
  IN [sum |-> r.sum, carry |-> r.c]
Eq(block, c) == [i \in 1..Len(block) |-> IF block[i] = c THEN 1 ELSE 0]
PrefixXor(a) == [i \in 1..Len(a) |-> PopCount(SubSeq(a, 1, i)) % 2]

\* get_escaped_branchless_u64: prevEsc in {0,1}; returns [mask |-> bytes that are escaped, carry |-> prevEsc for the next block]
EscapedTrick(prevEsc, bs0) ==
  LET n == Len(bs0)
      pe == [i \in 1..n |-> IF i = 1 THEN prevEsc ELSE 0]
      bs == And(bs0, Not(pe))
      follows == Or(Shl1(bs), pe)
      oddStarts == And(And(bs, Not(EvenBits(n))), Not(follows))
      add == AddBits(oddStarts, bs)
      invert == Shl1(add.sum)
  IN [mask |-> And(Xor(EvenBits(n), invert), follows), carry |-> add.carry]
\* the same thing said directly: byte i is escaped iff the run of backslashes ending just before it (continuing into the
\* previous block when prevEsc says so) has odd length
EscapedDirect(prevEsc, bs) ==
  LET r == FoldLeft(LAMBDA acc, i : IF acc.e = 1 THEN [m |-> Append(acc.m, 1), e |-> 0]
                                    ELSE [m |-> Append(acc.m, 0), e |-> bs[i]],
                    [m |-> <<>>, e |-> prevEsc], [i \in 1..Len(bs) |-> i])
  IN [mask |-> r.m, carry |-> r.e]

\* carried state of the code: ins (prev_instring: 0 or 1 = all ones), esc (prev_escaped), l, r
BlkInit == [ins |-> 0, esc |-> 0, l |-> 0, r |-> 0]
\* get_string_bits (the branch for "no backslash in this block" included as the code has it)
StringBits(st, block) ==
  LET n == Len(block)
      bsb == Eq(block, BS)
      e == IF PopCount(bsb) # 0 THEN EscapedTrick(st.esc, bsb)
           ELSE [mask |-> [i \in 1..n |-> IF i = 1 THEN st.esc ELSE 0], carry |-> 0]
      quotes == And(Eq(block, QT), Not(e.mask))
      instr == Xor(PrefixXor(quotes), [i \in 1..n |-> st.ins])
  IN [instr |-> instr, ins |-> instr[n], esc |-> e.carry]
\* skip_container_loop
BlkStep(st, block, left, right) ==
  LET n == Len(block)
      sb == StringBits(st, block)
      rb == And(Eq(block, right), Not(sb.instr))
      lb == And(Eq(block, left), Not(sb.instr))
      rpos == SelectSeq([i \in 1..n |-> i], LAMBDA i : rb[i] = 1)       \* the right brackets in order
      \* walk the right brackets: the k-th one closes when  l0 + #left before it  <  r0 + k
      hit == {k \in 1..Len(rpos) : st.l + PopCount(SubSeq(lb, 1, rpos[k] - 1)) < st.r + k}
      first == IF hit = {} THEN 0 ELSE CHOOSE k \in hit : \A j \in hit : k <= j
  IN IF first # 0
     THEN [st |-> [ins |-> sb.ins, esc |-> sb.esc, l |-> st.l + PopCount(SubSeq(lb, 1, rpos[first] - 1)), r |-> st.r + first], res |-> rpos[first]]
     ELSE [st |-> [ins |-> sb.ins, esc |-> sb.esc, l |-> st.l + PopCount(lb), r |-> st.r + Len(rpos)], res |-> 0]

\* ---- whole inputs: split into blocks of B bytes, the tail padded with zero bytes (skip_container) ----
Blocks(w, B) == LET nb == (Len(w) + B - 1) \div B IN
                [k \in 1..(IF nb = 0 THEN 1 ELSE nb) |-> [i \in 1..B |-> IF (k - 1) * B + i <= Len(w) THEN w[(k - 1) * B + i] ELSE 0]]
\* bytes consumed up to and including the closing bracket, 0 when the container does not close
RunWith(Step(_, _, _, _), init, w, B, left, right) ==
  LET bl == Blocks(w, B)
      r == FoldLeft(LAMBDA acc, k : IF acc.done # 0 THEN acc
                                    ELSE LET x == Step(acc.st, bl[k], left, right) IN
                                         IF x.res # 0 THEN [st |-> x.st, done |-> (k - 1) * B + x.res] ELSE [st |-> x.st, done |-> 0],
                    [st |-> init, done |-> 0], [k \in 1..Len(bl) |-> k])
  IN r.done
RefToBlk(s) == [ins |-> s.ins, esc |-> s.esc, l |-> s.l, r |-> s.r]
RefStepBlk(st, block, left, right) == LET x == RefBlock([esc |-> st.esc, ins |-> st.ins, l |-> st.l, r |-> st.r], block, left, right) IN [st |-> RefToBlk(x.s), res |-> x.res]
SkipRef(w, B, left, right) == RunWith(RefStepBlk, BlkInit, w, B, left, right)
SkipBlk(w, B, left, right) == RunWith(BlkStep, BlkInit, w, B, left, right)
=============================================================================
