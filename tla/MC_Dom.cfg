CONSTANTS
  Slots = {"s1", "s2", "s3"}
  MaxOps = 2
  MaxId = 9
  EmitOn = FALSE
INIT MCInit
NEXT MCNext
INVARIANTS RcExact NoLeakNoDangling Refines AllDroppedEmpty Emit
CHECK_DEADLOCK FALSE
