INIT Init
NEXT Next
POSTCONDITION TraceAccepted
CHECK_DEADLOCK FALSE
