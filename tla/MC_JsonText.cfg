CONSTANTS
  MaxDepth = 3
  MaxLen = 8
  EmitOn = TRUE
INIT Init
NEXT Next
INVARIANTS AgreeStrict AgreeLax StrictImpliesLax BuilderAgrees Emit
CHECK_DEADLOCK FALSE
