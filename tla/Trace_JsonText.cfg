CONSTANTS
  MaxDepth = 100000
INIT Init
NEXT Next
POSTCONDITION TraceAccepted
CHECK_DEADLOCK FALSE
