CONSTANTS
  MaxDepth = 100000
  Checks = {"verdict", "panic"}
INIT Init
NEXT Next
POSTCONDITION TraceAccepted
CHECK_DEADLOCK FALSE
