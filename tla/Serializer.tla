----------------------------- MODULE Serializer -----------------------------
(***************************************************************************)
(* What serialisation must emit (C05, C06).                                *)
(*  Encode(s)      the JSON string literal of a code-point sequence:       *)
(*                 quote and backslash escaped, C0 controls as \b \t \n \f *)
(*                 \r or \u00xx (lower-case hex), everything else verbatim *)
(*                 as UTF-8.                                               *)
(*  SerText(v)     the compact text of a value (numbers by their literal)  *)
(*  PrettyText(v)  the same with the prescribed indentation: two spaces    *)
(*                 per level, ": " after keys, empty containers closed     *)
(*                 immediately.  Written independently of the formatter's  *)
(*                 (current_indent, has_value) state machine.              *)
(*  Sink / writer layering: every writer is a stack of buffers; bytes      *)
(*                 reach the sink in the order they were produced          *)
(*                 (MC_Writer checks the flush-before-reserve rule).       *)
(***************************************************************************)
EXTENDS JsonText

HexLower(n) == IF n < 10 THEN 48 + n ELSE 87 + n
Utf8Of(cp) ==
  IF cp < 128 THEN <<cp>>
  ELSE IF cp < 2048 THEN <<192 + (cp \div 64), 128 + (cp % 64)>>
  ELSE IF cp < 65536 THEN <<224 + (cp \div 4096), 128 + ((cp \div 64) % 64), 128 + (cp % 64)>>
  ELSE <<240 + (cp \div 262144), 128 + ((cp \div 4096) % 64), 128 + ((cp \div 64) % 64), 128 + (cp % 64)>>
EscapeCp(cp) ==
  CASE cp = 34 -> <<92, 34>> [] cp = 92 -> <<92, 92>>
    [] cp = 8 -> <<92, 98>> [] cp = 9 -> <<92, 116>> [] cp = 10 -> <<92, 110>> [] cp = 12 -> <<92, 102>> [] cp = 13 -> <<92, 114>>
    [] cp < 32 -> <<92, 117, 48, 48, HexLower(cp \div 16), HexLower(cp % 16)>>
    [] OTHER -> Utf8Of(cp)
Encode(s) == <<34>> \o FoldLeft(LAMBDA acc, cp : acc \o EscapeCp(cp), <<>>, s) \o <<34>>

Join(parts, sep) == FoldLeft(LAMBDA acc, i : IF i = 1 THEN parts[1] ELSE acc \o sep \o parts[i], <<>>, [i \in 1..Len(parts) |-> i])
RECURSIVE SerText(_)
SerText(v) ==
  CASE v.t = "null" -> <<110, 117, 108, 108>>
    [] v.t = "bool" -> IF v.b THEN <<116, 114, 117, 101>> ELSE <<102, 97, 108, 115, 101>>
    [] v.t = "num"  -> v.lit
    [] v.t = "str"  -> Encode(v.s)
    [] v.t = "arr"  -> <<91>> \o Join([i \in 1..Len(v.e) |-> SerText(v.e[i])], <<44>>) \o <<93>>
    [] v.t = "obj"  -> <<123>> \o Join([i \in 1..Len(v.m) |-> Encode(v.m[i][1].s) \o <<58>> \o SerText(v.m[i][2])], <<44>>) \o <<125>>
\* the pretty form with an arbitrary indentation unit (PrettyFormatter::with_indent); the default unit is two spaces
IndentI(n, ind) == FoldLeft(LAMBDA acc, i : acc \o ind, <<>>, [i \in 1..n |-> i])
RECURSIVE PrettyTextI(_, _, _)
PrettyTextI(v, d, ind) ==
  CASE v.t = "arr" -> IF v.e = <<>> THEN <<91, 93>>
                      ELSE <<91>> \o Join([i \in 1..Len(v.e) |-> <<10>> \o IndentI(d + 1, ind) \o PrettyTextI(v.e[i], d + 1, ind)], <<44>>) \o <<10>> \o IndentI(d, ind) \o <<93>>
    [] v.t = "obj" -> IF v.m = <<>> THEN <<123, 125>>
                      ELSE <<123>> \o Join([i \in 1..Len(v.m) |-> <<10>> \o IndentI(d + 1, ind) \o Encode(v.m[i][1].s) \o <<58, 32>> \o PrettyTextI(v.m[i][2], d + 1, ind)], <<44>>)
                           \o <<10>> \o IndentI(d, ind) \o <<125>>
    [] OTHER -> SerText(v)
PrettyText(v, d) == PrettyTextI(v, d, <<32, 32>>)
=============================================================================
