CONSTANTS
  EmitOn = FALSE
INIT Init
NEXT Next
INVARIANTS MatchAccepted Emit
CHECK_DEADLOCK FALSE
