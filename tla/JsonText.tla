---------------------------- MODULE JsonText ----------------------------
(***************************************************************************)
(* Character-class level model of the JSON scanners of sonic-rs.           *)
(*                                                                         *)
(*  - Class(b): byte -> class.  The alphabet is as coarse as the RFC 8259  *)
(*    grammar + UTF-8 validity + surrogate pairing allow.                  *)
(*  - StepOp(s, c): the *operational* pushdown recogniser (the shape of     *)
(*    parse_value / parse_array / parse_object and of skip_one /           *)
(*    skip_array / skip_object / skip_string / skip_number in parser.rs).  *)
(*    s.lax = TRUE is the validate-and-skip machine (no surrogate pairing).*)
(*  - BStep(bs, b): the same control with a payload layer that builds the  *)
(*    denoted value, the source span of every value, number literal texts  *)
(*    and decoded string code points  ==> Denotes(bytes), spans.           *)
(*  - IsJson(t, lax): an independently written *declarative* recursive     *)
(*    descent recogniser over the same classes.  MC_JsonText checks        *)
(*    Accepts(Run(t)) <=> IsJson(t) for all bounded class strings.         *)
(***************************************************************************)
EXTENDS Naturals, Sequences, FiniteSets, TLC, SequencesExt, Numbers

CONSTANT MaxDepth       \* nesting limit of the model (large for trace validation)

(***************************** alphabet ***********************************)
ClsSeq == << "[", "]", "{", "}", ":", ",", "q", "bs", "-", "+", ".", "0", "d17", "d89",
             "a", "b", "e", "f", "l", "n", "r", "s", "t", "u", "E", "hAB", "hcCF", "hdD",
             "/", "sp", "wsc", "ct", "o",
             "c2", "e0", "e1", "ed", "f0", "f1", "f4", "x8", "x9", "xa", "bad" >>
Cls == {ClsSeq[i] : i \in 1..Len(ClsSeq)}
Idx(c) == CHOOSE i \in 1..Len(ClsSeq) : ClsSeq[i] = c

ClassOf(b) ==
  CASE b = 91 -> "["  [] b = 93 -> "]"  [] b = 123 -> "{" [] b = 125 -> "}"
    [] b = 58 -> ":"  [] b = 44 -> ","  [] b = 34 -> "q"  [] b = 92 -> "bs"
    [] b = 45 -> "-"  [] b = 43 -> "+"  [] b = 46 -> "."  [] b = 48 -> "0"
    [] b \in 49..55 -> "d17" [] b \in 56..57 -> "d89"
    [] b = 97 -> "a"  [] b = 98 -> "b"  [] b = 101 -> "e" [] b = 102 -> "f"
    [] b = 108 -> "l" [] b = 110 -> "n" [] b = 114 -> "r" [] b = 115 -> "s"
    [] b = 116 -> "t" [] b = 117 -> "u" [] b = 69 -> "E"
    [] b \in {65, 66} -> "hAB" [] b \in {99, 67, 70} -> "hcCF" [] b \in {100, 68} -> "hdD"
    [] b = 47 -> "/"  [] b = 32 -> "sp" [] b \in {9, 10, 13} -> "wsc"
    [] b < 32 -> "ct"
    [] b < 128 -> "o"
    [] b \in 128..143 -> "x8" [] b \in 144..159 -> "x9" [] b \in 160..191 -> "xa"
    [] b \in {192, 193} -> "bad" [] b \in 194..223 -> "c2"
    [] b = 224 -> "e0" [] b \in 225..236 -> "e1" [] b = 237 -> "ed" [] b \in {238, 239} -> "e1"
    [] b = 240 -> "f0" [] b \in 241..243 -> "f1" [] b = 244 -> "f4"
    [] OTHER -> "bad"
ClassTab == [b \in 0..255 |-> ClassOf(b)]
Class(b) == ClassTab[b]

\* canonical byte of a class (used by the exhaustive configs to give the
\* payload layer something concrete to work on)
Canon(c) ==
  CASE c = "[" -> 91 [] c = "]" -> 93 [] c = "{" -> 123 [] c = "}" -> 125
    [] c = ":" -> 58 [] c = "," -> 44 [] c = "q" -> 34 [] c = "bs" -> 92
    [] c = "-" -> 45 [] c = "+" -> 43 [] c = "." -> 46 [] c = "0" -> 48
    [] c = "d17" -> 49 [] c = "d89" -> 57
    [] c = "a" -> 97 [] c = "b" -> 98 [] c = "e" -> 101 [] c = "f" -> 102
    [] c = "l" -> 108 [] c = "n" -> 110 [] c = "r" -> 114 [] c = "s" -> 115
    [] c = "t" -> 116 [] c = "u" -> 117 [] c = "E" -> 69
    [] c = "hAB" -> 65 [] c = "hcCF" -> 99 [] c = "hdD" -> 100
    [] c = "/" -> 47 [] c = "sp" -> 32 [] c = "wsc" -> 10 [] c = "ct" -> 1 [] c = "o" -> 120
    [] c = "c2" -> 195 [] c = "e0" -> 224 [] c = "e1" -> 226 [] c = "ed" -> 237
    [] c = "f0" -> 240 [] c = "f1" -> 241 [] c = "f4" -> 244
    [] c = "x8" -> 130 [] c = "x9" -> 150 [] c = "xa" -> 170 [] c = "bad" -> 255

Ws      == {"sp", "wsc"}
DigitC  == {"0", "d17", "d89"}
HexC    == {"0", "d17", "d89", "a", "b", "e", "f", "E", "hAB", "hcCF", "hdD"}
HiSecond == {"d89", "a", "b", "hAB"}            \* \uD8..\uDB
LoSecond == {"hcCF", "hdD", "e", "f", "E"}      \* \uDC..\uDF
SimpleEsc == {"q", "bs", "/", "b", "f", "n", "r", "t"}
Cont    == {"x8", "x9", "xa"}
NonAscii == {"c2", "e0", "e1", "ed", "f0", "f1", "f4", "x8", "x9", "xa", "bad"}
LitTail == [t |-> <<"r", "u", "e">>, f |-> <<"a", "l", "s", "e">>, n |-> <<"u", "l", "l">>]

(************************* operational control ****************************)
\* s.m    mode
\* s.st   stack of "A" / "O"
\* s.k    hex digits still expected (\uXXXX)
\* s.lit  pending letters of a literal
\* s.su   surrogate tracking inside \uXXXX: "n" | "d" (first digit d/D) | "hi" | "lo"
\* s.ph   a high surrogate has been decoded and awaits \uDC..
\* s.ky   the string being scanned is an object key
\* s.u8   UTF-8 tail state: "" | "1" | "2" | "3" | "e0" | "ed" | "f0" | "f4"
\* s.lax  validate-and-skip machine (no scalar-value checks)
Base(lax) == [m |-> "val", st |-> <<>>, k |-> 0, lit |-> <<>>, su |-> "n", ph |-> FALSE,
              ky |-> FALSE, u8 |-> "", lax |-> lax]
Init0(lax) == Base(lax)
Rej(s) == [Base(s.lax) EXCEPT !.m = "rej"]
S(s, m, st) == [Base(s.lax) EXCEPT !.m = m, !.st = st]
Top(st) == IF st = <<>> THEN "none" ELSE st[Len(st)]
Pop(st) == SubSeq(st, 1, Len(st) - 1)
AfterVal(st) == IF st = <<>> THEN "end" ELSE IF Top(st) = "A" THEN "anext" ELSE "onext"
NumModes == {"nminus", "nzero", "nint", "nfrac0", "nfrac", "nexp0", "nexps", "nexp"}
NumDone  == {"nzero", "nint", "nfrac", "nexp"}   \* modes in which the literal may end

ValStart(s, c) ==
  LET st == s.st IN
  CASE c \in Ws -> s
    [] c = "[" -> IF Len(st) < MaxDepth THEN S(s, "afirst", Append(st, "A")) ELSE Rej(s)
    [] c = "{" -> IF Len(st) < MaxDepth THEN S(s, "ofirst", Append(st, "O")) ELSE Rej(s)
    [] c = "q" -> S(s, "str", st)
    [] c = "-" -> S(s, "nminus", st)
    [] c = "0" -> S(s, "nzero", st)
    [] c \in {"d17", "d89"} -> S(s, "nint", st)
    [] c \in {"t", "f", "n"} -> [S(s, "lit", st) EXCEPT !.lit = LitTail[c]]
    [] OTHER -> Rej(s)

\* end of a \uXXXX escape (s.su final), strict machine only
EndHex(s) ==
  LET back == [s EXCEPT !.m = "str", !.k = 0, !.su = "n"] IN
  IF s.lax THEN [back EXCEPT !.ph = FALSE]
  ELSE CASE s.su = "lo" -> IF s.ph THEN [back EXCEPT !.ph = FALSE] ELSE Rej(s)
         [] s.su = "hi" -> IF s.ph THEN Rej(s) ELSE [back EXCEPT !.ph = TRUE]
         [] OTHER       -> IF s.ph THEN Rej(s) ELSE back

StrStep(s, c) ==    \* s.m = "str"
  IF s.u8 # "" THEN
     \* inside a multi-byte UTF-8 sequence
     CASE s.u8 = "1"  -> IF c \in Cont THEN [s EXCEPT !.u8 = ""] ELSE Rej(s)
       [] s.u8 = "2"  -> IF c \in Cont THEN [s EXCEPT !.u8 = "1"] ELSE Rej(s)
       [] s.u8 = "3"  -> IF c \in Cont THEN [s EXCEPT !.u8 = "2"] ELSE Rej(s)
       [] s.u8 = "e0" -> IF c = "xa" THEN [s EXCEPT !.u8 = "1"] ELSE Rej(s)
       [] s.u8 = "ed" -> IF c \in {"x8", "x9"} THEN [s EXCEPT !.u8 = "1"] ELSE Rej(s)
       [] s.u8 = "f0" -> IF c \in {"x9", "xa"} THEN [s EXCEPT !.u8 = "2"] ELSE Rej(s)
       [] s.u8 = "f4" -> IF c = "x8" THEN [s EXCEPT !.u8 = "2"] ELSE Rej(s)
  ELSE IF s.ph /\ c # "bs" THEN Rej(s)           \* high surrogate must be followed by \u
  ELSE
     CASE c = "q"  -> IF s.ky THEN S(s, "ocolon", s.st) ELSE S(s, AfterVal(s.st), s.st)
       [] c = "bs" -> [s EXCEPT !.m = "esc"]
       [] c \in {"ct", "wsc"} -> Rej(s)
       [] c = "c2" -> [s EXCEPT !.u8 = "1"]
       [] c = "e0" -> [s EXCEPT !.u8 = "e0"]
       [] c = "e1" -> [s EXCEPT !.u8 = "2"]
       [] c = "ed" -> [s EXCEPT !.u8 = "ed"]
       [] c = "f0" -> [s EXCEPT !.u8 = "f0"]
       [] c = "f1" -> [s EXCEPT !.u8 = "3"]
       [] c = "f4" -> [s EXCEPT !.u8 = "f4"]
       [] c \in {"x8", "x9", "xa", "bad"} -> Rej(s)
       [] OTHER -> s

RECURSIVE StepOp(_, _)
StepOp(s, c) ==
  LET st == s.st  m == s.m IN
  CASE m = "rej" -> s
    [] m \in {"val", "oval"} -> ValStart(s, c)
    [] m = "afirst" -> IF c = "]" THEN S(s, AfterVal(Pop(st)), Pop(st)) ELSE ValStart(s, c)
    [] m = "anext"  -> CASE c \in Ws -> s
                         [] c = "," -> S(s, "val", st)
                         [] c = "]" -> S(s, AfterVal(Pop(st)), Pop(st))
                         [] OTHER -> Rej(s)
    [] m = "ofirst" -> CASE c \in Ws -> s
                         [] c = "q" -> [S(s, "str", st) EXCEPT !.ky = TRUE]
                         [] c = "}" -> S(s, AfterVal(Pop(st)), Pop(st))
                         [] OTHER -> Rej(s)
    [] m = "okey"   -> CASE c \in Ws -> s
                         [] c = "q" -> [S(s, "str", st) EXCEPT !.ky = TRUE]
                         [] OTHER -> Rej(s)
    [] m = "ocolon" -> CASE c \in Ws -> s [] c = ":" -> S(s, "oval", st) [] OTHER -> Rej(s)
    [] m = "onext"  -> CASE c \in Ws -> s
                         [] c = "," -> S(s, "okey", st)
                         [] c = "}" -> S(s, AfterVal(Pop(st)), Pop(st))
                         [] OTHER -> Rej(s)
    [] m = "end"    -> IF c \in Ws THEN s ELSE Rej(s)
    [] m = "str"    -> StrStep(s, c)
    [] m = "esc"    -> IF s.ph /\ c # "u" THEN Rej(s)
                       ELSE CASE c \in SimpleEsc -> [s EXCEPT !.m = "str"]
                              [] c = "u" -> [s EXCEPT !.m = "hex", !.k = 4, !.su = "n"]
                              [] OTHER -> Rej(s)
    [] m = "hex"    -> IF c \notin HexC THEN Rej(s)
                       ELSE LET su2 == IF s.lax THEN "n"
                                       ELSE CASE s.k = 4 -> IF c = "hdD" THEN "d" ELSE "n"
                                              [] s.k = 3 -> IF s.su = "d"
                                                            THEN (IF c \in HiSecond THEN "hi"
                                                                  ELSE IF c \in LoSecond THEN "lo" ELSE "n")
                                                            ELSE "n"
                                              [] OTHER -> s.su
                            s1 == [s EXCEPT !.su = su2, !.k = s.k - 1]
                       IN IF s.k = 1 THEN EndHex(s1) ELSE s1
    [] m = "lit"    -> IF c = Head(s.lit)
                       THEN (IF Len(s.lit) = 1 THEN S(s, AfterVal(st), st) ELSE [s EXCEPT !.lit = Tail(s.lit)])
                       ELSE Rej(s)
    \* numbers: a non-number character ends the literal and is dispatched again
    [] m = "nminus" -> CASE c = "0" -> S(s, "nzero", st) [] c \in {"d17", "d89"} -> S(s, "nint", st) [] OTHER -> Rej(s)
    [] m = "nzero"  -> CASE c = "." -> S(s, "nfrac0", st) [] c \in {"e", "E"} -> S(s, "nexp0", st)
                         [] c \in DigitC -> Rej(s)
                         [] OTHER -> StepOp(S(s, AfterVal(st), st), c)
    [] m = "nint"   -> CASE c \in DigitC -> s [] c = "." -> S(s, "nfrac0", st) [] c \in {"e", "E"} -> S(s, "nexp0", st)
                         [] OTHER -> StepOp(S(s, AfterVal(st), st), c)
    [] m = "nfrac0" -> IF c \in DigitC THEN S(s, "nfrac", st) ELSE Rej(s)
    [] m = "nfrac"  -> CASE c \in DigitC -> s [] c \in {"e", "E"} -> S(s, "nexp0", st)
                         [] OTHER -> StepOp(S(s, AfterVal(st), st), c)
    [] m = "nexp0"  -> CASE c \in {"+", "-"} -> S(s, "nexps", st) [] c \in DigitC -> S(s, "nexp", st) [] OTHER -> Rej(s)
    [] m = "nexps"  -> IF c \in DigitC THEN S(s, "nexp", st) ELSE Rej(s)
    [] m = "nexp"   -> IF c \in DigitC THEN s ELSE StepOp(S(s, AfterVal(st), st), c)
    [] OTHER -> Rej(s)

AcceptingEnd(s) == \/ s.m = "end"
                   \/ (s.m \in NumDone /\ s.st = <<>>)
\* the first value is complete (what a one-value entry point such as get / skip_one needs):
\* for numbers this is only known when the next byte arrives, hence the end-of-input case
FirstValueDone(s) == AcceptingEnd(s)

RunCls(t, lax) == FoldLeft(StepOp, Init0(lax), t)
AcceptsCls(t, lax) == AcceptingEnd(RunCls(t, lax))

(***************************** payload layer *******************************)
\* values:  [t |-> "null"|"bool"|"num"|"str"|"arr"|"obj", a |-> start, z |-> end (exclusive), ...]
\*   bool: b     num: lit (bytes)     str: s (code points), esc (had a backslash)
\*   arr: e (sequence of values)     obj: m (sequence of <<keyvalue, value>>; keyvalue is a "str" value)
NoVal == [t |-> "none"]
BInit(lax) == [s |-> Init0(lax), pos |-> 0, vs |-> <<>>, cur |-> NoVal, root |-> NoVal,
               hv |-> 0, hs |-> 0, uv |-> 0, inf |-> FALSE, badsur |-> FALSE, bigexp |-> FALSE]

HexVal(b) == IF b \in 48..57 THEN b - 48 ELSE IF b \in 97..102 THEN b - 87 ELSE b - 55
EscChar(b) == CASE b = 98 -> 8 [] b = 102 -> 12 [] b = 110 -> 10 [] b = 114 -> 13 [] b = 116 -> 9 [] OTHER -> b

Deliver(bs, v) ==
  IF bs.vs = <<>> THEN [bs EXCEPT !.root = v, !.cur = NoVal]
  ELSE LET n == Len(bs.vs)  top == bs.vs[n] IN
       IF top.t = "arr" THEN [bs EXCEPT !.vs[n].e = Append(@, v), !.cur = NoVal]
       ELSE [bs EXCEPT !.vs[n].m = Append(@, <<top.key, v>>), !.cur = NoVal]

FinishNumber(bs) ==
  LET v == [t |-> "num", a |-> bs.cur.a, z |-> bs.pos, lit |-> bs.cur.lit, k |-> Classify(bs.cur.lit)]
      b1 == Deliver(bs, v)
  IN [b1 EXCEPT !.inf = bs.inf \/ ~LitIsFinite(bs.cur.lit),
                !.bigexp = bs.bigexp \/ Len(Scan(bs.cur.lit).ed) >= 3]

AppendCp(bs, cp) == [bs EXCEPT !.cur.s = Append(@, cp)]

\* payload update for one byte b whose class c moved the control from s to s2 (s2 not rejecting)
Payload(bs, s, s2, c, b) ==
  LET m == s.m IN
  CASE m \in {"val", "oval", "afirst"} /\ c \notin Ws /\ ~(m = "afirst" /\ c = "]") ->
         CASE c = "[" -> [bs EXCEPT !.vs = Append(@, [t |-> "arr", a |-> bs.pos, e |-> <<>>])]
           [] c = "{" -> [bs EXCEPT !.vs = Append(@, [t |-> "obj", a |-> bs.pos, m |-> <<>>, key |-> NoVal])]
           [] c = "q" -> [bs EXCEPT !.cur = [t |-> "str", a |-> bs.pos, s |-> <<>>, esc |-> FALSE]]
           [] c \in {"-", "0", "d17", "d89"} -> [bs EXCEPT !.cur = [t |-> "num", a |-> bs.pos, lit |-> <<b>>]]
           [] OTHER -> [bs EXCEPT !.cur = [t |-> "lit", a |-> bs.pos, c |-> c]]
    [] m \in {"ofirst", "okey"} /\ c = "q" ->
         [bs EXCEPT !.cur = [t |-> "str", a |-> bs.pos, s |-> <<>>, esc |-> FALSE]]
    [] (m \in {"afirst", "anext"} /\ c = "]") \/ (m \in {"ofirst", "onext"} /\ c = "}") ->
         LET n == Len(bs.vs)  top == bs.vs[n]
             v == IF top.t = "arr" THEN [t |-> "arr", a |-> top.a, z |-> bs.pos + 1, e |-> top.e]
                                   ELSE [t |-> "obj", a |-> top.a, z |-> bs.pos + 1, m |-> top.m]
         IN Deliver([bs EXCEPT !.vs = SubSeq(@, 1, n - 1)], v)
    [] m = "str" ->
         IF s.u8 # "" THEN                         \* continuation byte
            LET acc == bs.uv * 64 + (b - 128) IN
            IF s2.u8 = "" THEN AppendCp([bs EXCEPT !.uv = 0], acc) ELSE [bs EXCEPT !.uv = acc]
         ELSE CASE c = "q" ->
                     LET v == [t |-> "str", a |-> bs.cur.a, z |-> bs.pos + 1, s |-> bs.cur.s, esc |-> bs.cur.esc] IN
                     IF s.ky THEN [bs EXCEPT !.vs[Len(bs.vs)].key = v, !.cur = NoVal]
                     ELSE Deliver(bs, v)
                [] c = "bs" -> [bs EXCEPT !.cur.esc = TRUE]
                [] c = "c2" -> [bs EXCEPT !.uv = b - 192]
                [] c \in {"e0", "e1", "ed"} -> [bs EXCEPT !.uv = b - 224]
                [] c \in {"f0", "f1", "f4"} -> [bs EXCEPT !.uv = b - 240]
                [] OTHER -> AppendCp(bs, b)
    [] m = "esc" -> IF c = "u" THEN [bs EXCEPT !.hv = 0] ELSE AppendCp(bs, EscChar(b))
    [] m = "hex" ->
         LET h == bs.hv * 16 + HexVal(b) IN
         IF s.k > 1 THEN [bs EXCEPT !.hv = h]
         ELSE \* escape complete; h is the 16-bit unit
              IF s.lax THEN
                 \* lossy reading of the lax machine: unpaired surrogates become U+FFFD
                 IF h \in 55296..56319 THEN                          \* high
                    (IF bs.hs # 0 THEN [AppendCp(bs, 65533) EXCEPT !.hs = h, !.hv = 0, !.badsur = TRUE]
                                  ELSE [bs EXCEPT !.hs = h, !.hv = 0])
                 ELSE IF h \in 56320..57343 THEN                     \* low
                    (IF bs.hs # 0 THEN [AppendCp(bs, 65536 + (bs.hs - 55296) * 1024 + (h - 56320)) EXCEPT !.hs = 0, !.hv = 0]
                                  ELSE [AppendCp(bs, 65533) EXCEPT !.hv = 0, !.badsur = TRUE])
                 ELSE (IF bs.hs # 0 THEN [AppendCp(AppendCp(bs, 65533), h) EXCEPT !.hs = 0, !.hv = 0, !.badsur = TRUE]
                                    ELSE [AppendCp(bs, h) EXCEPT !.hv = 0])
              ELSE IF s2.ph THEN [bs EXCEPT !.hs = h, !.hv = 0]
                   ELSE IF s.ph THEN [AppendCp(bs, 65536 + (bs.hs - 55296) * 1024 + (h - 56320)) EXCEPT !.hs = 0, !.hv = 0]
                   ELSE [AppendCp(bs, h) EXCEPT !.hv = 0]
    [] m = "lit" ->
         IF s2.m # "lit" THEN
            LET v == CASE bs.cur.c = "t" -> [t |-> "bool", a |-> bs.cur.a, z |-> bs.pos + 1, b |-> TRUE]
                       [] bs.cur.c = "f" -> [t |-> "bool", a |-> bs.cur.a, z |-> bs.pos + 1, b |-> FALSE]
                       [] OTHER -> [t |-> "null", a |-> bs.cur.a, z |-> bs.pos + 1]
            IN Deliver(bs, v)
         ELSE bs
    [] m \in NumModes /\ s2.m \in NumModes -> [bs EXCEPT !.cur.lit = Append(@, b)]
    [] OTHER -> bs

\* in the lax machine a pending high surrogate that is not followed by \uDC.. is flushed as U+FFFD
FlushHs(bs, s, c) ==
  IF bs.hs # 0 /\ s.lax /\ s.u8 = ""
     /\ ((s.m = "str" /\ c # "bs") \/ (s.m = "esc" /\ c # "u"))
  THEN [AppendCp(bs, 65533) EXCEPT !.hs = 0, !.badsur = TRUE]
  ELSE bs

BStep(bs, b) ==
  LET c  == Class(b)
      s  == bs.s
      \* a number ends implicitly when a non-number character arrives
      endnum == s.m \in NumDone /\ StepOp(s, c).m \notin NumModes
      bs1 == IF endnum THEN [FinishNumber(bs) EXCEPT !.s = S(s, AfterVal(s.st), s.st)] ELSE bs
      s1 == bs1.s
      s2 == StepOp(s1, c)
  IN IF s2.m = "rej" THEN [bs1 EXCEPT !.s = s2]
     ELSE [Payload(FlushHs(bs1, s1, c), s1, s2, c, b) EXCEPT !.s = s2, !.pos = bs1.pos + 1]

BFinish(bs) ==
  IF bs.s.m \in NumDone /\ bs.s.st = <<>>
  THEN [FinishNumber(bs) EXCEPT !.s = S(bs.s, "end", <<>>)]
  ELSE bs

BRun(bytes, lax) == BFinish(FoldLeft(BStep, BInit(lax), bytes))
\* verdicts
AcceptsLax(bytes)    == BRun(bytes, TRUE).s.m = "end"
AcceptsStrict(bytes) == LET r == BRun(bytes, FALSE) IN r.s.m = "end" /\ ~r.inf
Denotes(bytes)       == BRun(bytes, FALSE).root

\* ---- prefix semantics: what a one-value entry point (Deserializer::deserialize, get, skip_one,
\* the iterators) sees: the machine stops as soon as the first value is complete ----
BStepP(bs, b) == IF bs.root # NoVal \/ bs.s.m = "rej" THEN bs ELSE BStep(bs, b)
PRun(bytes, lax) == LET r == FoldLeft(BStepP, BInit(lax), bytes) IN IF r.root # NoVal THEN r ELSE BFinish(r)
PrefixOk(bytes, lax) == LET r == PRun(bytes, lax) IN r.root # NoVal /\ (lax \/ ~r.inf)

\* A root-level number directly followed by a byte that is not a delimiter ("-09", "1x"): whether a
\* one-value entry point returns the number and leaves the rest, or rejects, is left open.
PrefixAmbiguous(bytes, lax) ==
  LET r == PRun(bytes, lax) IN
  /\ r.root # NoVal /\ r.root.t = "num" /\ r.root.z < Len(bytes)
  /\ Class(bytes[r.root.z + 1]) \notin {"sp", "wsc", ",", "]", "}"}

\* offset at which the machine rejected (number of bytes consumed), or Len if it did not
RejectPos(bytes, lax) == BRun(bytes, lax).pos

\* ---- UTF-8 validity of a whole byte string (the up-front check of byte carriers) ----
Utf8Step(u, b) ==
  LET c == Class(b) IN
  CASE u = "bad" -> "bad"
    [] u = ""   -> CASE c = "c2" -> "1" [] c = "e0" -> "e0" [] c = "e1" -> "2" [] c = "ed" -> "ed"
                     [] c = "f0" -> "f0" [] c = "f1" -> "3" [] c = "f4" -> "f4"
                     [] c \in {"x8", "x9", "xa", "bad"} -> "bad" [] OTHER -> ""
    [] u = "1"  -> IF c \in Cont THEN "" ELSE "bad"
    [] u = "2"  -> IF c \in Cont THEN "1" ELSE "bad"
    [] u = "3"  -> IF c \in Cont THEN "2" ELSE "bad"
    [] u = "e0" -> IF c = "xa" THEN "1" ELSE "bad"
    [] u = "ed" -> IF c \in {"x8", "x9"} THEN "1" ELSE "bad"
    [] u = "f0" -> IF c \in {"x9", "xa"} THEN "2" ELSE "bad"
    [] u = "f4" -> IF c = "x8" THEN "2" ELSE "bad"
Utf8Valid(bytes) == FoldLeft(Utf8Step, "", bytes) = ""

\* ---- lossy repair of invalid UTF-8 (String::from_utf8_lossy: every maximal invalid subpart -> U+FFFD) ----
\* state: <<automaton state, pending bytes of the current sequence, output>>
FFFD == <<239, 191, 189>>
LossyStep(acc, b) ==
  LET u == acc[1]  pend == acc[2]  out == acc[3]
      startOf(x, o) ==           \* process x as the first byte of a sequence, output so far o
        LET n == Utf8Step("", x) IN
        IF n = "bad" THEN <<"", <<>>, o \o FFFD>>
        ELSE IF n = "" THEN <<"", <<>>, Append(o, x)>>
        ELSE <<n, <<x>>, o>>
  IN IF u = "" THEN startOf(b, out)
     ELSE LET n == Utf8Step(u, b) IN
          IF n = "bad" THEN startOf(b, out \o FFFD)                \* truncated sequence -> one U+FFFD, then b afresh
          ELSE IF n = "" THEN <<"", <<>>, out \o Append(pend, b)>>
          ELSE <<n, Append(pend, b), out>>
LossyRepair(bytes) == LET r == FoldLeft(LossyStep, <<"", <<>>, <<>>>>, bytes) IN IF r[1] = "" THEN r[3] ELSE r[3] \o FFFD

\* ---- value helpers (shared by JsonValue / LazyGet / ...) ----
RECURSIVE Strip(_)
\* forget spans and escape flags: the reference data model of C03
Strip(v) ==
  CASE v.t = "null" -> [t |-> "null"]
    [] v.t = "bool" -> [t |-> "bool", b |-> v.b]
    [] v.t = "num"  -> [t |-> "num", lit |-> v.lit]
    [] v.t = "str"  -> [t |-> "str", s |-> v.s]
    [] v.t = "arr"  -> [t |-> "arr", e |-> [i \in 1..Len(v.e) |-> Strip(v.e[i])]]
    [] v.t = "obj"  -> [t |-> "obj", m |-> [i \in 1..Len(v.m) |-> <<v.m[i][1].s, Strip(v.m[i][2])>>]]
    [] OTHER -> v

(*********************** declarative grammar (classes) **********************)
\* An independently written recursive-descent recogniser.  Positions are 1-based;
\* every XEnd operator returns the position after the construct or 0 on failure.
RECURSIVE WsEnd(_, _)
WsEnd(t, i) == IF i <= Len(t) /\ t[i] \in Ws THEN WsEnd(t, i + 1) ELSE i
At(t, i) == IF i <= Len(t) THEN t[i] ELSE "eof"
HexAt(t, i) == \A j \in i..(i + 3) : At(t, j) \in HexC
\* kind of the \uXXXX whose first hex digit is at i: "hi" | "lo" | "n"
UKind(t, i) == IF At(t, i) = "hdD" THEN (IF At(t, i + 1) \in HiSecond THEN "hi"
                                         ELSE IF At(t, i + 1) \in LoSecond THEN "lo" ELSE "n")
               ELSE "n"
\* length of the well-formed UTF-8 sequence starting at i (0 if none)
Utf8Len(t, i) ==
  LET c == At(t, i) c1 == At(t, i + 1) c2 == At(t, i + 2) c3 == At(t, i + 3) IN
  CASE c = "c2" -> IF c1 \in Cont THEN 2 ELSE 0
    [] c = "e0" -> IF c1 = "xa" /\ c2 \in Cont THEN 3 ELSE 0
    [] c = "e1" -> IF c1 \in Cont /\ c2 \in Cont THEN 3 ELSE 0
    [] c = "ed" -> IF c1 \in {"x8", "x9"} /\ c2 \in Cont THEN 3 ELSE 0
    [] c = "f0" -> IF c1 \in {"x9", "xa"} /\ c2 \in Cont /\ c3 \in Cont THEN 4 ELSE 0
    [] c = "f1" -> IF c1 \in Cont /\ c2 \in Cont /\ c3 \in Cont THEN 4 ELSE 0
    [] c = "f4" -> IF c1 = "x8" /\ c2 \in Cont /\ c3 \in Cont THEN 4 ELSE 0
    [] OTHER -> 0
RECURSIVE StrEnd(_, _, _)
\* i points just after the opening quote
StrEnd(t, i, lax) ==
  LET c == At(t, i) IN
  CASE c = "eof" -> 0
    [] c = "q" -> i + 1
    [] c \in {"ct", "wsc", "x8", "x9", "xa", "bad"} -> 0
    [] c \in {"c2", "e0", "e1", "ed", "f0", "f1", "f4"} ->
         IF Utf8Len(t, i) = 0 THEN 0 ELSE StrEnd(t, i + Utf8Len(t, i), lax)
    [] c = "bs" ->
         IF At(t, i + 1) \in SimpleEsc THEN StrEnd(t, i + 2, lax)
         ELSE IF At(t, i + 1) = "u" /\ HexAt(t, i + 2) THEN
              IF lax THEN StrEnd(t, i + 6, lax)
              ELSE CASE UKind(t, i + 2) = "n"  -> StrEnd(t, i + 6, lax)
                     [] UKind(t, i + 2) = "lo" -> 0
                     [] OTHER -> \* high: must be followed by \u + low
                          IF At(t, i + 6) = "bs" /\ At(t, i + 7) = "u" /\ HexAt(t, i + 8) /\ UKind(t, i + 8) = "lo"
                          THEN StrEnd(t, i + 12, lax) ELSE 0
         ELSE 0
    [] OTHER -> StrEnd(t, i + 1, lax)
RECURSIVE Digits(_, _)
Digits(t, i) == IF At(t, i) \in DigitC THEN Digits(t, i + 1) ELSE i
NumEnd(t, i0) ==
  LET i1 == IF At(t, i0) = "-" THEN i0 + 1 ELSE i0
      i2 == IF At(t, i1) = "0" THEN i1 + 1
            ELSE IF At(t, i1) \in {"d17", "d89"} THEN Digits(t, i1) ELSE 0
      i3 == IF i2 = 0 THEN 0
            ELSE IF At(t, i2) = "." THEN (IF Digits(t, i2 + 1) > i2 + 1 THEN Digits(t, i2 + 1) ELSE 0)
            ELSE i2
      i4 == IF i3 = 0 THEN 0
            ELSE IF At(t, i3) \in {"e", "E"} THEN
                    LET j == IF At(t, i3 + 1) \in {"+", "-"} THEN i3 + 2 ELSE i3 + 1
                    IN IF Digits(t, j) > j THEN Digits(t, j) ELSE 0
            ELSE i3
  IN i4
LitEnd(t, i, w) == IF \A j \in 1..Len(w) : At(t, i + j - 1) = w[j] THEN i + Len(w) ELSE 0
RECURSIVE ValEnd(_, _, _, _)
RECURSIVE ElemsEnd(_, _, _, _)
RECURSIVE MembersEnd(_, _, _, _)
ValEnd(t, i, d, lax) ==
  LET c == At(t, i) IN
  CASE c = "q" -> StrEnd(t, i + 1, lax)
    [] c \in {"-", "0", "d17", "d89"} -> NumEnd(t, i)
    [] c = "t" -> LitEnd(t, i, <<"t", "r", "u", "e">>)
    [] c = "f" -> LitEnd(t, i, <<"f", "a", "l", "s", "e">>)
    [] c = "n" -> LitEnd(t, i, <<"n", "u", "l", "l">>)
    [] c = "[" -> IF d = 0 THEN 0 ELSE
                  LET j == WsEnd(t, i + 1) IN
                  IF At(t, j) = "]" THEN j + 1 ELSE ElemsEnd(t, j, d - 1, lax)
    [] c = "{" -> IF d = 0 THEN 0 ELSE
                  LET j == WsEnd(t, i + 1) IN
                  IF At(t, j) = "}" THEN j + 1 ELSE MembersEnd(t, j, d - 1, lax)
    [] OTHER -> 0
ElemsEnd(t, i, d, lax) ==
  LET e == ValEnd(t, i, d, lax) IN
  IF e = 0 THEN 0 ELSE
  LET j == WsEnd(t, e) IN
  CASE At(t, j) = "]" -> j + 1
    [] At(t, j) = "," -> ElemsEnd(t, WsEnd(t, j + 1), d, lax)
    [] OTHER -> 0
MembersEnd(t, i, d, lax) ==
  IF At(t, i) # "q" THEN 0 ELSE
  LET k == StrEnd(t, i + 1, lax) IN
  IF k = 0 THEN 0 ELSE
  LET c == WsEnd(t, k) IN
  IF At(t, c) # ":" THEN 0 ELSE
  LET e == ValEnd(t, WsEnd(t, c + 1), d, lax) IN
  IF e = 0 THEN 0 ELSE
  LET j == WsEnd(t, e) IN
  CASE At(t, j) = "}" -> j + 1
    [] At(t, j) = "," -> MembersEnd(t, WsEnd(t, j + 1), d, lax)
    [] OTHER -> 0
IsJson(t, lax) == LET e == ValEnd(t, WsEnd(t, 1), MaxDepth, lax) IN e # 0 /\ WsEnd(t, e) = Len(t) + 1
\* a well-formed value starts at the first non-blank position; returns <<start, end>> or <<0,0>>
FirstValue(t, lax) == LET a == WsEnd(t, 1) e == ValEnd(t, a, MaxDepth, lax) IN IF e = 0 THEN <<0, 0>> ELSE <<a, e>>

\* one representative per equivalence class of the transition function in state s
ReprSet(s) == {c \in Cls : \A c2 \in Cls : (StepOp(s, c2) = StepOp(s, c)) => Idx(c) <= Idx(c2)}
EqSet(s, c) == {c2 \in Cls : StepOp(s, c2) = StepOp(s, c)}
=============================================================================
