------------------------------- MODULE Writer -------------------------------
(***************************************************************************)
(* The writer stack of the serializer (src/writer.rs).  The formatter      *)
(* emits its output through two routes: ordinary io::Write::write_all, and *)
(* WriteExt::reserve_with + flush_len (strings and numbers are formatted   *)
(* straight into reserved space).  A writer is a stack of layers; each     *)
(* layer routes the two kinds of call the way the code does:               *)
(*   "vec"       Vec<u8> / BytesMut writer: both routes append             *)
(*   "sink"      an io::Write that accepts `limit` bytes, then fails       *)
(*   "buffered"  BufferedWriter<W>: write passes through; reserve happens  *)
(*               in its own buffer, flush_len hands the buffer to W        *)
(*   "iobuf"     io::BufWriter<W: WriteExt>: write may stay in its buffer  *)
(*               (when, is std's business: nondeterministic here);         *)
(*               reserve first hands the buffer over, then reserves in W   *)
(*   "ref","box" &mut W, Box<W>: transparent                               *)
(* The property (C05): bytes reach the sink in the order they were issued, *)
(* nothing else does; after a successful flush everything issued is there; *)
(* a failing sink makes some call fail and what it holds is a prefix.      *)
(***************************************************************************)
EXTENDS Naturals, Sequences, FiniteSets, SequencesExt

\* a writer: sequence of layers, outermost first; the last one is "vec" or "sink".
\* state: bufs (one buffer per layer; only "iobuf" keeps bytes between calls), out (bytes in the final sink), failed
Layer(k, limit) == [k |-> k, limit |-> limit]
InitW(stack) == [bufs |-> [i \in 1..Len(stack) |-> <<>>], out |-> <<>>, failed |-> FALSE]
IsPrefix2(a, b) == Len(a) <= Len(b) /\ SubSeq(b, 1, Len(a)) = a

\* deliver bytes to layer i by the io::Write route; `keep` resolves the BufWriter's choice (TRUE: stay buffered)
RECURSIVE WriteAt(_, _, _, _, _)
WriteAt(stack, st, i, bytes, keep) ==
  LET l == stack[i] IN
  IF st.failed THEN st
  ELSE CASE l.k = "vec" -> [st EXCEPT !.out = st.out \o bytes]
    [] l.k = "sink" -> LET room == IF l.limit > Len(st.out) THEN l.limit - Len(st.out) ELSE 0 IN
                       IF Len(bytes) <= room THEN [st EXCEPT !.out = st.out \o bytes]
                       ELSE [st EXCEPT !.out = st.out \o SubSeq(bytes, 1, room), !.failed = TRUE]
    [] l.k = "iobuf" -> IF keep THEN [st EXCEPT !.bufs[i] = st.bufs[i] \o bytes]
                        ELSE WriteAt(stack, [st EXCEPT !.bufs[i] = <<>>], i + 1, st.bufs[i] \o bytes, keep)
    [] OTHER -> WriteAt(stack, st, i + 1, bytes, keep)          \* buffered (write passes through), ref, box
\* io::Write::flush at layer i: buffers are handed down
RECURSIVE FlushAt(_, _, _)
FlushAt(stack, st, i) ==
  IF st.failed \/ i > Len(stack) THEN st
  ELSE IF stack[i].k = "iobuf" THEN FlushAt(stack, WriteAt(stack, [st EXCEPT !.bufs[i] = <<>>], i + 1, st.bufs[i], FALSE), i + 1)
  ELSE FlushAt(stack, st, i + 1)
\* reserve_with + fill + flush_len at layer i
RECURSIVE ReserveAt(_, _, _, _)
ReserveAt(stack, st, i, bytes) ==
  LET l == stack[i] IN
  IF st.failed THEN st
  ELSE CASE l.k = "vec" -> [st EXCEPT !.out = st.out \o bytes]
    \* a plain io::Write sink has no WriteExt: it is always wrapped by "buffered"
    [] l.k = "buffered" -> WriteAt(stack, st, i + 1, bytes, FALSE)        \* own buffer, then write_all to the inner writer
    [] l.k = "iobuf" -> LET st1 == WriteAt(stack, [st EXCEPT !.bufs[i] = <<>>], i + 1, st.bufs[i], FALSE)   \* hand the buffer over first
                        IN ReserveAt(stack, st1, i + 1, bytes)
    [] OTHER -> ReserveAt(stack, st, i + 1, bytes)
\* the defect this module was first written against (F4): reserve directly in the inner writer
ReserveAtOld(stack, st, i, bytes) ==
  IF stack[i].k = "iobuf" THEN ReserveAt(stack, st, i + 1, bytes) ELSE ReserveAt(stack, st, i, bytes)

Pending(stack, st) == FoldLeft(LAMBDA acc, i : st.bufs[i] \o acc, <<>>, [i \in 1..Len(stack) |-> i])    \* inner buffers are older
=============================================================================
