--------------------------- MODULE Trace_Strings ---------------------------
(* Trace validation for string-literal decoding (C09): six decoder families x {strict, lossy},
   literals swept over special character x position x length x start offset x what follows,
   and the exhaustive \uXXXX / surrogate-pair table.                                         *)
EXTENDS JsonText, Json, IOUtils
Rec == ndJsonDeserialize(IOEnv.TRACE)
CONSTANT Checks
VARIABLE l
vars == <<l>>

StrBad(r) ==
  LET st == BRun(r.lit, FALSE)                  \* strict reading of the literal alone
      lx == BRun(r.lit, TRUE)                   \* lax reading (escapes only checked for form)
      strictOk == st.s.m = "end" /\ st.root.t = "str"
      laxOk    == lx.s.m = "end" /\ lx.root.t = "str"
      sv == st.root
      \* lossy reading: repair invalid UTF-8 first, then the lax machine with U+FFFD for unpaired surrogates
      ly == BRun(LossyRepair(r.lit), TRUE)
      lossyOk == ly.s.m = "end" /\ ly.root.t = "str"
      SkipOnly == {"lazy_as_str", "ownedlazy_as_str", "get_as_str"}
      BadStrict(ep) ==
        LET x == r.res[ep] IN
        \/ x.panic
        \/ ("dangling" \in DOMAIN x)
        \/ /\ ~x.panic /\ ep \notin SkipOnly /\ ep # "str_borrow"
           /\ \/ x.ok # strictOk
              \/ (x.ok /\ (x.invalid_utf8 \/ x.s # sv.s))
              \/ (x.ok /\ ep \in {"cow_borrow", "cow_between_bytes"} /\ (x.b = "yes") # ~sv.esc)      \* borrowed <=> no escape (also between two byte buffers that are not UTF-8)
        \/ /\ ~x.panic /\ ep = "str_borrow"
           /\ \/ x.ok # (strictOk /\ ~sv.esc)
              \/ (x.ok /\ x.s # sv.s)
        \/ /\ ~x.panic /\ ep \in SkipOnly
           /\ \/ (strictOk /\ ~(x.ok /\ ~x.invalid_utf8 /\ x.s = sv.s))
              \/ (~laxOk /\ x.ok)
              \/ (~strictOk /\ laxOk /\ x.ok)          \* grammar-valid but undecodable: as_str must not invent a value
      BadLossy(ep) ==
        LET x == r.lossy[ep] IN
        \/ x.panic
        \/ /\ ~x.panic
           /\ \/ x.ok # lossyOk
              \/ (x.ok /\ (x.invalid_utf8 \/ x.s # ly.root.s))
              \* between two repaired strings of the same document: borrowed <=> nothing had to be repaired or unescaped in this one
              \/ (x.ok /\ ep = "cow_between" /\ (x.b = "yes") # (Utf8Valid(r.lit) /\ ~ly.root.esc /\ ~ly.badsur))
      \* sonic-rs built with its utf8_lossy feature: from_slice itself is a lossy decoder (recorded under "flossy")
      BadFeatureLossy(ep) ==
        LET x == r.flossy[ep] IN
        \/ x.panic
        \/ /\ ~x.panic
           /\ \/ x.ok # lossyOk
              \/ (x.ok /\ (x.invalid_utf8 \/ x.s # ly.root.s))
  IN {ep \in DOMAIN r.res : "strict" \in Checks /\ "flossy" \notin DOMAIN r /\ BadStrict(ep)}
     \cup {"lossy:" \o ep : ep \in {e \in DOMAIN r.lossy : "lossy" \in Checks /\ BadLossy(e)}}
     \cup (IF "flossy" \in DOMAIN r THEN {"feature-lossy:" \o ep : ep \in {e \in DOMAIN r.flossy : "lossy" \in Checks /\ BadFeatureLossy(e)}} ELSE {})

Init == l = 1
Next == /\ l <= Len(Rec) /\ StrBad(Rec[l]) = {} /\ l' = l + 1
Spec == Init /\ [][Next]_vars
TraceAccepted ==
  LET d == TLCGet("stats").diameter IN
  IF d = Len(Rec) + 1 THEN PrintT(<<"TRACE-OK", Len(Rec)>>)
  ELSE /\ PrintT(<<"TRACE-REJECT", d, ToJson(StrBad(Rec[d]))>>)
       /\ FALSE
=============================================================================
