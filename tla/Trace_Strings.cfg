CONSTANTS
  MaxDepth = 100000
  Checks = {"strict", "lossy"}
INIT Init
NEXT Next
POSTCONDITION TraceAccepted
CHECK_DEADLOCK FALSE
