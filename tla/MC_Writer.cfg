CONSTANTS
  MaxOps = 5
  EmitOn = FALSE
  OldReserve = FALSE
INIT Init
NEXT Next
INVARIANTS InOrder AfterFlush FailingSinkFails Emit
CHECK_DEADLOCK FALSE
