CONSTANTS
  MaxOps = 4
  EmitOn = FALSE
  OldReserve = FALSE
INIT Init
NEXT Next
INVARIANTS InOrder AfterFlush FailingSinkFails Emit
CHECK_DEADLOCK FALSE
