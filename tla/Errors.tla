------------------------------ MODULE Errors ------------------------------
(* Error positions (C20): the line / column convention of Position::from_index,
   and the category partition.                                               *)
EXTENDS Naturals, Sequences, SequencesExt

\* line = 1 + number of '\n' strictly before offset `off`; column = number of bytes
\* between the last such '\n' and `off`
LineColStep(acc, b) == IF b = 10 THEN <<acc[1] + 1, 0>> ELSE <<acc[1], acc[2] + 1>>
LineCol(bytes, off) ==
  LET n == IF off < Len(bytes) THEN off ELSE Len(bytes) IN
  FoldLeft(LineColStep, <<1, 0>>, SubSeq(bytes, 1, n))

LookupCategories == {"NotFound"}
ParseCategories  == {"Syntax", "Eof", "TypeUnmatched"}
=============================================================================
