------------------------------ MODULE Trace_Ser ------------------------------
(* Trace validation for C05 (serialisation emits well-formed JSON denoting the value, exact escaping, pretty =
   re-indented compact, writers agree, failing writers) and C06 (parse -> serialize is lossless, fixpoint).  *)
EXTENDS Serializer, Conform, Json, IOUtils
Rec == ndJsonDeserialize(IOEnv.TRACE)
CONSTANT Checks
VARIABLE l
vars == <<l>>

IsPrefixB(a, b) == Len(a) <= Len(b) /\ SubSeq(b, 1, Len(a)) = a
Den(bytes) == BRun(bytes, FALSE)
WellFormedCompact(bytes) == LET r == Den(bytes) IN r.s.m = "end" /\ ~r.inf /\ bytes = SerText(r.root)

\* ---- C06: parse, serialise, parse again ----
RtBad(r) ==
  LET dt == Den(r.t)
      judged == dt.s.m = "end" /\ ~dt.inf
      ds == Den(r.s)
  IN IF ~judged THEN {}
     ELSE IF r.sorted THEN
       \* sort_keys build: members of every object in ascending key order (stable), nothing else changes
       {c \in {"s-wellformed", "t-denotes", "s-denotes", "sorted", "fixpoint"} :
        \/ (c = "s-wellformed" /\ ~WellFormedCompact(r.s))
        \/ (c = "t-denotes" /\ ~ValMatches(dt.root, r.dump))
        \/ (c = "s-denotes" /\ ds.s.m = "end" /\ ~ValMatches(ds.root, r.dump_s))
        \/ (c = "sorted" /\ r.dump_s # SortDump(r.dump))
        \/ (c = "fixpoint" /\ r.s2 # r.s)}
     ELSE {c \in {"s-wellformed", "s-denotes", "t-denotes", "fixpoint", "display", "vec", "pretty", "rawnum", "rawnum-copying"} :
        \/ (c = "s-wellformed" /\ ~WellFormedCompact(r.s))
        \/ (c = "t-denotes" /\ ~ValMatches(dt.root, r.dump))                    \* the DOM is the denotation of t (order, duplicates, exact numbers)
        \/ (c = "s-denotes" /\ ds.s.m = "end" /\ ~ValMatches(ds.root, r.dump))  \* ... and s denotes the very same DOM
        \/ (c = "fixpoint" /\ r.s2 # r.s)
        \/ (c = "display" /\ r.display # r.s)
        \/ (c = "vec" /\ r.vec # r.s)
        \/ (c = "pretty" /\ ds.s.m = "end" /\ r.pretty # PrettyText(ds.root, 0))
        \/ (c = "rawnum" /\ LET dr == Den(r.sraw) IN ~(dr.s.m = "end" /\ Strip(dr.root) = Strip(dt.root) /\ r.sraw = SerText(dr.root)))
        \* the same through the copying driver (a value that is not at the start of its input), read after the input was overwritten
        \/ (c = "rawnum-copying" /\ LET dr == Den(r.sraw2) IN ~(dr.s.m = "end" /\ Strip(dr.root) = Strip(dt.root) /\ r.sraw2 = SerText(dr.root)))}

\* ---- C05: serialise a Rust value whose data model is r.model ----
SerBad(r) ==
  LET ref == r.outs["to_string"]
      d == Den(ref.b)
  IN {c \in {"ok", "wellformed", "denotes", "agree", "pretty", "fail"} :
        \/ (c = "ok" /\ ~ref.ok)
        \/ (c = "wellformed" /\ ref.ok /\ ~WellFormedCompact(ref.b))
        \/ (c = "denotes" /\ ref.ok /\ d.s.m = "end" /\ ~ValMatches(d.root, r.model))
        \/ (c = "agree" /\ ref.ok /\ \E w \in DOMAIN r.outs : ~r.outs[w].ok \/ r.outs[w].b # ref.b)
        \/ (c = "pretty" /\ ref.ok /\ d.s.m = "end" /\ \E w \in DOMAIN r.pretty : ~r.pretty[w].ok \/ r.pretty[w].b # PrettyText(d.root, 0))
        \* PrettyFormatter::with_indent(unit): the same layout with that unit
        \/ (c = "pretty" /\ ref.ok /\ d.s.m = "end" /\ \E i \in 1..Len(r.pretty_ind) : ~r.pretty_ind[i].out.ok \/ r.pretty_ind[i].out.b # PrettyTextI(d.root, 0, r.pretty_ind[i].ind))
        \* a writer that fails after n bytes: the error is returned and what reached the sink is a prefix of the output
        \/ (c = "fail" /\ ref.ok /\ \E i \in 1..Len(r.fails) :
               LET f == r.fails[i] IN
               \/ ~IsPrefixB(f.written, ref.b)
               \/ (f.n < Len(ref.b) /\ f.ok)
               \/ (f.n >= Len(ref.b) /\ ~(f.ok /\ f.written = ref.b)))}

EventBad(r) == CASE r.ev = "rt" -> RtBad(r) [] r.ev = "ser" -> SerBad(r) [] OTHER -> {"unknown-event"}
Init == l = 1
Next == /\ l <= Len(Rec) /\ EventBad(Rec[l]) = {} /\ l' = l + 1
Spec == Init /\ [][Next]_vars
TraceAccepted ==
  LET d == TLCGet("stats").diameter IN
  IF d = Len(Rec) + 1 THEN PrintT(<<"TRACE-OK", Len(Rec)>>)
  ELSE /\ PrintT(<<"TRACE-REJECT", d, ToJson(EventBad(Rec[d]))>>)
       /\ FALSE
=============================================================================
