------------------------------ MODULE LazyGet ------------------------------
(***************************************************************************)
(* get / get_many / get_by_schema / lazy iterators, specified on top of the *)
(* value-with-spans that JsonText's payload layer builds.                  *)
(*                                                                         *)
(*  declarative:  Lookup(root, path)  - first member wins, source spans     *)
(*  operational:  the checked walk (validate what is traversed, stop after  *)
(*                the value) is characterised by WalkState: the state of    *)
(*                the lax machine after the prefix that precedes the        *)
(*                returned span must be "at the value of the target".       *)
(*  GetMany:      trie walk with `remain` counter and early exit, checked   *)
(*                against one Lookup per path (MC_LazyGet).                 *)
(***************************************************************************)
EXTENDS JsonText

\* path element:  [k |-> "key", s |-> <<code points>>]  or  [k |-> "idx", i |-> n]
Key(s) == [k |-> "key", s |-> s]
Idx0(i) == [k |-> "idx", i |-> i]

Fail(why) == [ok |-> FALSE, why |-> why]
Found(v)  == [ok |-> TRUE, v |-> v]

FirstIndex(m, s) == LET hits == {i \in 1..Len(m) : m[i][1].s = s} IN
                    IF hits = {} THEN 0 ELSE CHOOSE i \in hits : \A j \in hits : i <= j

RECURSIVE Lookup(_, _)
Lookup(v, path) ==
  IF path = <<>> THEN Found(v)
  ELSE LET e == Head(path) IN
       IF e.k = "key" THEN
          IF v.t # "obj" THEN Fail("mismatch")
          ELSE LET i == FirstIndex(v.m, e.s) IN
               IF i = 0 THEN Fail("notfound") ELSE Lookup(v.m[i][2], Tail(path))
       ELSE
          IF v.t # "arr" THEN Fail("mismatch")
          ELSE IF e.i >= Len(v.e) THEN Fail("notfound") ELSE Lookup(v.e[e.i + 1], Tail(path))

\* the first value of the input (prefix semantics, validate-and-skip machine)
Root(bytes) == PRun(bytes, TRUE).root
Get(bytes, path) == IF Root(bytes) = NoVal THEN Fail("syntax") ELSE Lookup(Root(bytes), path)

\* ---- C14: what a *checked* walk may return on arbitrary bytes -------------------------
\* It returned the span [a, z) for `path`.  Then the bytes before `a` must drive the lax machine,
\* without rejection, into "a value is expected here" with one open container per path element:
\* an object whose pending key is the wanted key (which of several members of that name is taken is C10's business, not C14's),
\* or an array with exactly `i` completed elements.
PrefixState(bytes, a) == FoldLeft(BStep, BInit(TRUE), SubSeq(bytes, 1, a))
LevelOk(frame, e) ==
  IF e.k = "key" THEN /\ frame.t = "obj" /\ frame.key # NoVal /\ frame.key.s = e.s
  ELSE /\ frame.t = "arr" /\ Len(frame.e) = e.i
TraversedOk(bytes, path, a) ==
  LET st == PrefixState(bytes, a) IN
  /\ st.s.m \in {"val", "oval", "afirst"}
  /\ Len(st.vs) = Len(path)
  /\ \A i \in 1..Len(path) : LevelOk(st.vs[i], path[i])
ValueOk(bytes, a, z) ==
  /\ 0 <= a /\ a < z /\ z <= Len(bytes)
  /\ LET sl == SubSeq(bytes, a + 1, z) IN
     /\ Class(sl[1]) \notin Ws /\ Class(sl[Len(sl)]) \notin Ws
     /\ AcceptsLax(sl)
CheckedGetOk(bytes, path, a, z) == ValueOk(bytes, a, z) /\ TraversedOk(bytes, path, a)

\* ---- members of the first container (iterators, C12) ----
\* Sequence of [a, z] (and key) for a well-formed first value; for malformed input the iterator
\* yields the members completed before the machine rejects: ItemsBefore.
Members(v) == IF v.t = "arr" THEN [i \in 1..Len(v.e) |-> [a |-> v.e[i].a, z |-> v.e[i].z]]
              ELSE [i \in 1..Len(v.m) |-> [a |-> v.m[i][2].a, z |-> v.m[i][2].z, key |-> v.m[i][1].s]]
\* the open top-level frame after running the lax machine over everything (malformed case)
TopFrame(bytes) == LET st0 == FoldLeft(BStepP, BInit(TRUE), bytes)
                       \* a number that is a direct member of the first container and runs up to the end of
                       \* the input is a complete, well-formed member (nothing but a separator is missing)
                       st == IF st0.root = NoVal /\ st0.s.m \in NumDone /\ Len(st0.vs) = 1 THEN FinishNumber(st0) ELSE st0
                   IN
                   IF st.root # NoVal THEN [done |-> TRUE, v |-> st.root]
                   ELSE IF st.vs = <<>> THEN [done |-> FALSE, none |-> TRUE]
                   ELSE [done |-> FALSE, none |-> FALSE, f |-> st.vs[1], rej |-> st.s.m = "rej", depth |-> Len(st.vs)]

\* ---- get_by_schema: recursive merge -------------------------------------------------------
\* A non-empty object schema meeting an object is merged member by member (schema order and keys kept,
\* absent keys keep their defaults); anything else is replaced by the document's value.
RECURSIVE Merge(_, _)
Merge(sv, dv) ==
  IF sv.t = "obj" /\ sv.m # <<>> /\ dv.t = "obj"
  THEN [t |-> "obj", a |-> 0, z |-> 0,
        m |-> [i \in 1..Len(sv.m) |->
                 LET j == FirstIndex(dv.m, sv.m[i][1].s) IN
                 IF j = 0 THEN sv.m[i] ELSE <<sv.m[i][1], Merge(sv.m[i][2], dv.m[j][2])>>]]
  ELSE dv

\* ---- get_many: the trie walk (operational) ---------------------------------------------
\* paths: sequence of paths.  Declarative result: one slot per path, in order.
SlotOf(root, p) == Lookup(root, p)
\* get_many succeeds when every path either resolves or misses only by an unknown key in a
\* non-empty object (-> empty slot); any other miss (index out of range, empty container, type
\* mismatch) is an error of the whole call.
RECURSIVE MissKind(_, _)
\* "ok" | "nokey" (unknown key in a non-empty object) | "hard"
MissKind(v, path) ==
  IF path = <<>> THEN "ok"
  ELSE LET e == Head(path) IN
       IF e.k = "key" THEN
          IF v.t # "obj" THEN "hard"
          ELSE IF v.m = <<>> THEN "hard"
          ELSE LET i == FirstIndex(v.m, e.s) IN IF i = 0 THEN "nokey" ELSE MissKind(v.m[i][2], Tail(path))
       ELSE IF v.t # "arr" THEN "hard"
            ELSE IF e.i >= Len(v.e) THEN "hard" ELSE MissKind(v.e[e.i + 1], Tail(path))
=============================================================================
