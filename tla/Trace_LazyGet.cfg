CONSTANTS
  MaxDepth = 100000
  Checks = {"c10", "panic"}
INIT Init
NEXT Next
POSTCONDITION TraceAccepted
CHECK_DEADLOCK FALSE
