-------------------------------- MODULE Simd --------------------------------
(***************************************************************************)
(* Lane-wise definitions of the vector primitives (C17).  A vector is a    *)
(* sequence of bytes, a mask / bitmask a sequence of 0/1 (index 1 = lane 0 *)
(* = least significant bit).  The specification is backend independent:    *)
(* the AVX2, SSE2, composed (v256 / v512), portable (v128) and arch         *)
(* fallback implementations must all compute these functions.              *)
(***************************************************************************)
EXTENDS Naturals, Sequences, FiniteSets, TLC, SequencesExt

Signed(b) == IF b < 128 THEN b ELSE b - 256          \* i8 view of a byte (as an integer offset by 256 to stay natural-free)
SLess(a, b) == (IF a < 128 THEN a + 256 ELSE a) < (IF b < 128 THEN b + 256 ELSE b)   \* signed a < signed b
Bit(p) == IF p THEN 1 ELSE 0
EqMask(a, b) == [i \in 1..Len(a) |-> Bit(a[i] = b[i])]
LeMask(a, b) == [i \in 1..Len(a) |-> Bit(a[i] <= b[i])]                    \* unsigned <=
GtMaskSigned(a, b) == [i \in 1..Len(a) |-> Bit(SLess(b[i], a[i]))]         \* signed >
LeMaskSigned(a, b) == [i \in 1..Len(a) |-> Bit(~SLess(b[i], a[i]))]       \* signed <=
OrMask(x, y) == [i \in 1..Len(x) |-> IF x[i] = 1 \/ y[i] = 1 THEN 1 ELSE 0]
AndMask(x, y) == [i \in 1..Len(x) |-> IF x[i] = 1 /\ y[i] = 1 THEN 1 ELSE 0]
Splat(c, n) == [i \in 1..n |-> c]

\* bit masks (BitMask trait)
FirstOffset(x) == LET ones == {i \in 1..Len(x) : x[i] = 1} IN IF ones = {} THEN Len(x) ELSE (CHOOSE i \in ones : \A j \in ones : i <= j) - 1
Before(x, y) == \E i \in 1..FirstOffset(y) : x[i] = 1             \* x has a set bit below y's first set bit
AllZero(x) == \A i \in 1..Len(x) : x[i] = 0
ClearHighBits(x, n) == [i \in 1..Len(x) |-> IF i > Len(x) - n THEN 0 ELSE x[i]]
\* carry-less prefix xor: bit i = xor of bits 0..i
PrefixXor(x) == [i \in 1..Len(x) |-> Cardinality({j \in 1..i : x[j] = 1}) % 2]
NonSpaceBits(data) == [i \in 1..Len(data) |-> Bit(data[i] \notin {9, 10, 13, 32})]
\* digits consumed and their value (as the digit sequence itself) by the 16-digit reader
Str2Int(bytes, need) ==
  LET run == FoldLeft(LAMBDA acc, i : IF acc = i - 1 /\ i <= need /\ bytes[i] \in 48..57 THEN i ELSE acc, 0, [i \in 1..Len(bytes) |-> i])
  IN [count |-> run, digits |-> [i \in 1..run |-> bytes[i] - 48]]
=============================================================================
