CONSTANTS
  Threads = {"t1", "t2", "t3"}
  Prog <- ProgDef
  P1 = "read"
  P2 = "read"
  P3 = "read"
  WeakCas = TRUE
  EmitOn = TRUE
INIT Init
NEXT Next
INVARIANTS EmitBad
CONSTRAINT NoBadDeref
CHECK_DEADLOCK FALSE
