CONSTANTS
  B = 4
  MaxLen = 8
INIT Init
NEXT Next
INVARIANTS SkipAgrees StateAgrees EscapeTrickAll
CHECK_DEADLOCK FALSE
