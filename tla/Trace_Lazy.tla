----------------------------- MODULE Trace_Lazy -----------------------------
(* Trace validation for C13: accessor sets of lazy / owned-lazy values obtained in every way, and
   histories of clone / take / mutation on OwnedLazyValue.                                     *)
EXTENDS OwnedLazy, Conform, Json, IOUtils
RECURSIVE StripN(_)
\* Strip with every number reduced to "a number"
StripN(v) ==
  CASE v.t = "num"  -> [t |-> "num"]
    [] v.t = "arr"  -> [t |-> "arr", e |-> [i \in 1..Len(v.e) |-> StripN(v.e[i])]]
    [] v.t = "obj"  -> [t |-> "obj", m |-> [i \in 1..Len(v.m) |-> <<v.m[i][1].s, StripN(v.m[i][2])>>]]
    [] OTHER -> Strip(v)
Rec == ndJsonDeserialize(IOEnv.TRACE)
CONSTANT Checks
VARIABLE l
vars == <<l>>

AccBad(r) ==
  LET ok == AcceptsStrict(r.b)
      lk == Lookup(Root(r.b), r.path)
      v == lk.v
      Bad(src) ==
        LET x == r.res[src] IN
        IF x.panic THEN TRUE
        ELSE IF ~ok \/ "skip" \in DOMAIN x THEN FALSE
        ELSE IF "absent" \in DOMAIN x THEN lk.ok
        ELSE IF ~lk.ok THEN TRUE
        ELSE IF src = "olv_container_len" THEN
             \/ x.arr.some # (v.t = "arr") \/ (x.arr.some /\ x.arr.len # Len(v.e))
             \/ x.obj.some # (v.t = "obj") \/ (x.obj.some /\ x.obj.len # Len(v.m))
        ELSE
          \/ x.type # v.t
          \/ x.is.null # (v.t = "null") \/ x.is.bool # (v.t = "bool") \/ x.is.num # (v.t = "num")
          \/ x.is.str # (v.t = "str") \/ x.is.arr # (v.t = "arr") \/ x.is.obj # (v.t = "obj")
          \/ x.bool.some # (v.t = "bool") \/ (x.bool.some /\ x.bool.b # v.b)
          \/ x.str.some # (v.t = "str") \/ (x.str.some /\ x.str.s # v.s)
          \/ x.num.some # (v.t = "num") \/ (x.num.some /\ ~NumMatches(v.lit, x.num.n))
          \/ x.rawnum.some # (v.t = "num") \/ (x.rawnum.some /\ src # "olv_to_lazyvalue" /\ x.rawnum.raw # v.lit)
          \* (to_lazyvalue holds the canonical spelling of a number, which denotes the same value)
          \/ (x.rawnum.some /\ src = "olv_to_lazyvalue" /\ v.t = "num" /\ ~(IsNumberLit(x.rawnum.raw) /\ NumMatches(x.rawnum.raw, x.num.n)))
          \* serialises back verbatim; a clone taken after the decoded form was cached may re-encode the
          \* text, it must still denote the same value
          \* Display prints what serialisation writes
          \/ (x.ser.some /\ x.disp # x.ser.b)
          \/ ~x.ser.some
          \/ (src \notin {"olv_clone", "olv_to_lazyvalue"} /\ x.ser.b # SubSeq(r.b, v.a + 1, v.z))
          \* (an owned lazy value made by to_lazyvalue holds the canonical serialisation: value-level comparison as well)
          \/ (src = "olv_clone" /\ LET cr == BRun(x.ser.b, FALSE) IN ~(cr.s.m = "end" /\ Strip(cr.root) = Strip(v)))
          \* to_lazyvalue re-spells numbers canonically: same structure, strings and literals; each number is judged by the accessor
          \* clauses when its own path is visited
          \/ (src = "olv_to_lazyvalue" /\ LET cr == BRun(x.ser.b, FALSE) IN ~(cr.s.m = "end" /\ StripN(cr.root) = StripN(v)))
  IN {src \in DOMAIN r.res : Bad(src)}

\* fold the history over the model; state: <<model, clone model (or NoVal), bad step index or 0, step no>>
HistBad(r) ==
  IF r.panic THEN {"panic"}
  ELSE IF ~AcceptsStrict(r.b) \/ ~r.parsed THEN {}
  ELSE
  LET m0 == Strip(Root(r.b))
      StepF(acc, st) ==
        IF acc[3] # 0 THEN acc
        ELSE LET n == acc[4] + 1
                 xr == BRun(st.x, FALSE)
                 x == Strip(xr.root)
                 res == OStep(acc[1], st.op, st.p, x)
                 cl == IF st.op = "clone" THEN acc[1] ELSE acc[2]
                 sr == BRun(st.ser, FALSE)
                 serOk == sr.s.m = "end" /\ Strip(sr.root) = res[1]
                 cloneOk == IF st.clone.some
                            THEN (cl # NoVal /\ LET cr == BRun(st.clone.ser, FALSE) IN cr.s.m = "end" /\ Strip(cr.root) = cl)
                            ELSE cl = NoVal
             IN IF serOk /\ cloneOk /\ st.applied = res[2] THEN <<res[1], cl, 0, n>> ELSE <<res[1], cl, n, n>>
      fin == FoldLeft(StepF, <<m0, NoVal, 0, 0>>, r.steps)
      \* unmodified: the first serialisation of an untouched value is the trimmed input verbatim
  IN IF fin[3] = 0 THEN {} ELSE {"step"}

EventBad(r) == CASE r.ev = "acc" -> AccBad(r) [] r.ev = "hist" -> HistBad(r) [] OTHER -> {"unknown-event"}
Init == l = 1
Next == /\ l <= Len(Rec) /\ EventBad(Rec[l]) = {} /\ l' = l + 1
Spec == Init /\ [][Next]_vars
TraceAccepted ==
  LET d == TLCGet("stats").diameter IN
  IF d = Len(Rec) + 1 THEN PrintT(<<"TRACE-OK", Len(Rec)>>)
  ELSE /\ PrintT(<<"TRACE-REJECT", d, ToJson(EventBad(Rec[d]))>>)
       /\ FALSE
=============================================================================
