------------------------------ MODULE Tables ------------------------------
(* Exports the class table of JsonText as JSON so that the harness does not carry
   its own copy of Class / Canon.                                             *)
EXTENDS JsonText, Json
MaxDepthDummy == 1
ASSUME PrintT(<<"T", ToJson([classes |-> [c \in Cls |-> {b \in 0..255 : Class(b) = c}],
                             canon   |-> [c \in Cls |-> Canon(c)],
                             order   |-> [c \in Cls |-> Idx(c)]])>>)
=============================================================================
