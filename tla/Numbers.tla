----------------------------- MODULE Numbers -----------------------------
(***************************************************************************)
(* JSON number literals: scanning, classification (u64 / i64 / f64),       *)
(* finiteness, integer target ranges, and exact correctly-rounded binary64 *)
(* conversion with base-1000 limb arithmetic (BigNat).  All operators are   *)
(* written with folds so that TLC can evaluate 800-digit literals.         *)
(***************************************************************************)
EXTENDS Naturals, Integers, Sequences, FiniteSets, TLC, SequencesExt

IsDigitB(b) == b \in 48..57

\* ---- scanning a grammar-valid literal (sequence of bytes) into its parts ----
ScanInit == [ph |-> "start", neg |-> FALSE, id |-> <<>>, fd |-> <<>>, eneg |-> FALSE, ed |-> <<>>,
             hasfrac |-> FALSE, hasexp |-> FALSE]
ScanStep(st, b) ==
  CASE b = 45 /\ st.ph = "start" -> [st EXCEPT !.neg = TRUE, !.ph = "int"]
    [] b = 45 /\ st.ph = "exp0" -> [st EXCEPT !.eneg = TRUE, !.ph = "exp"]
    [] b = 43 -> [st EXCEPT !.ph = "exp"]
    [] b = 46 -> [st EXCEPT !.ph = "frac", !.hasfrac = TRUE]
    [] b \in {101, 69} -> [st EXCEPT !.ph = "exp0", !.hasexp = TRUE]
    [] IsDigitB(b) -> CASE st.ph \in {"start", "int"} -> [st EXCEPT !.id = Append(@, b - 48), !.ph = "int"]
                        [] st.ph = "frac" -> [st EXCEPT !.fd = Append(@, b - 48)]
                        [] OTHER -> [st EXCEPT !.ed = Append(@, b - 48), !.ph = "exp"]
    [] OTHER -> st
Scan(lit) == FoldLeft(ScanStep, ScanInit, lit)

\* strip leading zeros of a digit sequence
StripZ(ds) == LET r == FoldLeft(LAMBDA acc, d : IF acc[1] /\ d = 0 THEN acc ELSE <<FALSE, Append(acc[2], d)>>,
                                <<TRUE, <<>>>>, ds)
              IN r[2]
\* value of a short digit sequence (caller guarantees <= 9 digits)
SmallVal(ds) == FoldLeft(LAMBDA acc, d : acc * 10 + d, 0, ds)
\* compare digit sequences of possibly different length as numbers written 0.d1d2d3...
\* (i.e. lexicographically with zero padding): -1, 0, 1
CmpFrac(a, b) ==
  LET n == IF Len(a) > Len(b) THEN Len(a) ELSE Len(b)
      da(i) == IF i <= Len(a) THEN a[i] ELSE 0
      db(i) == IF i <= Len(b) THEN b[i] ELSE 0
      diff == {i \in 1..n : da(i) # db(i)}
  IN IF diff = {} THEN 0
     ELSE LET i == CHOOSE i \in diff : \A j \in diff : i <= j IN IF da(i) < db(i) THEN 0 - 1 ELSE 1
\* compare two non-negative integers given as digit sequences without leading zeros
CmpInt(a, b) == IF Len(a) < Len(b) THEN 0 - 1 ELSE IF Len(a) > Len(b) THEN 1 ELSE CmpFrac(a, b)

DigitsOfString(s) == s   \* placeholder so that constants below read naturally
\* 2^1024 - 2^970: the least decimal value that rounds to +infinity (ties-to-even)
InfThreshold ==
 <<1,7,9,7,6,9,3,1,3,4,8,6,2,3,1,5,8,0,7,9,3,7,2,8,9,7,1,4,0,5,3,0,3,4,1,5,0,7,9,9,3,4,1,3,2,7,1,0,0,3,
   7,8,2,6,9,3,6,1,7,3,7,7,8,9,8,0,4,4,4,9,6,8,2,9,2,7,6,4,7,5,0,9,4,6,6,4,9,0,1,7,9,7,7,5,8,7,2,0,7,0,
   9,6,3,3,0,2,8,6,4,1,6,6,9,2,8,8,7,9,1,0,9,4,6,5,5,5,5,4,7,8,5,1,9,4,0,4,0,2,6,3,0,6,5,7,4,8,8,6,7,1,
   5,0,5,8,2,0,6,8,1,9,0,8,9,0,2,0,0,0,7,0,8,3,8,3,6,7,6,2,7,3,8,5,4,8,4,5,8,1,7,7,1,1,5,3,1,7,6,4,4,7,
   5,7,3,0,2,7,0,0,6,9,8,5,5,5,7,1,3,6,6,9,5,9,6,2,2,8,4,2,9,1,4,8,1,9,8,6,0,8,3,4,9,3,6,4,7,5,2,9,2,7,
   1,9,0,7,4,1,6,8,4,4,4,3,6,5,5,1,0,7,0,4,3,4,2,7,1,1,5,5,9,6,9,9,5,0,8,0,9,3,0,4,2,8,8,0,1,7,7,9,0,4,
   1,7,4,4,9,7,7,9,2>>

\* decimal exponent field, saturated so that TLC's 32-bit integers never overflow
ExpField(sc) == LET e == StripZ(sc.ed) IN
                LET mag == IF Len(e) > 7 THEN 10000000 ELSE SmallVal(e) IN
                IF sc.eneg THEN 0 - mag ELSE mag
\* scientific exponent of the first significant digit: value = 0.nz x 10^(Sci+1)
Mant(sc) == sc.id \o sc.fd
LeadZ(ds) == Len(ds) - Len(StripZ(ds))
Sci(sc) == Len(sc.id) - (LeadZ(Mant(sc)) + 1) + ExpField(sc)
IsZeroLit(sc) == StripZ(Mant(sc)) = <<>>

LitIsFinite(lit) ==
  LET sc == Scan(lit) IN
  IF IsZeroLit(sc) THEN TRUE
  ELSE LET e == Sci(sc) IN
       IF e < 308 THEN TRUE ELSE IF e > 308 THEN FALSE
       ELSE CmpFrac(StripZ(Mant(sc)), InfThreshold) < 0

\* ---- classification as the DOM / Number does it ----
U64Max == <<1,8,4,4,6,7,4,4,0,7,3,7,0,9,5,5,1,6,1,5>>
I64MinAbs == <<9,2,2,3,3,7,2,0,3,6,8,5,4,7,7,5,8,0,8>>
IsPlainInt(sc) == ~sc.hasfrac /\ ~sc.hasexp
Classify(lit) ==
  LET sc == Scan(lit) IN
  IF ~IsPlainInt(sc) THEN "f64"
  ELSE IF ~sc.neg THEN (IF CmpInt(StripZ(sc.id), U64Max) <= 0 THEN "u64" ELSE "f64")
  ELSE IF StripZ(sc.id) = <<>> THEN "f64"                      \* -0 is the float -0.0
  ELSE IF CmpInt(StripZ(sc.id), I64MinAbs) <= 0 THEN "i64" ELSE "f64"


(***************************** BigNat ***************************************)
\* natural numbers as little-endian sequences of base-1000 limbs, <<>> = 0, no high zero limbs.
\* Everything is a fold: TLC's Java stack does not survive 400-deep recursion.
Iota(n) == [i \in 1..n |-> i]
BNorm(a) == LET top == FoldLeft(LAMBDA acc, i : IF a[i] # 0 THEN i ELSE acc, 0, Iota(Len(a))) IN SubSeq(a, 1, top)
BCarry(cols) ==
  LET r == FoldLeft(LAMBDA acc, col : LET t == col + acc[1] IN <<t \div 1000, Append(acc[2], t % 1000)>>,
                    <<0, <<>>>>, cols)
      c == r[1]
  IN BNorm(r[2] \o <<c % 1000, (c \div 1000) % 1000, (c \div 1000000) % 1000, c \div 1000000000>>)
BLimb(a, i) == IF i >= 1 /\ i <= Len(a) THEN a[i] ELSE 0
BMax(x, y) == IF x > y THEN x ELSE y
BAdd(a, b) == BCarry([i \in 1..BMax(Len(a), Len(b)) |-> BLimb(a, i) + BLimb(b, i)])
BMulSmall(a, k) == BCarry([i \in 1..Len(a) |-> a[i] * k])          \* k <= 2^20
BMul(a, b) ==
  IF a = <<>> \/ b = <<>> THEN <<>>
  ELSE BCarry([k \in 1..(Len(a) + Len(b) - 1) |->
         FoldLeft(LAMBDA acc, i : acc + a[i] * b[k + 1 - i], 0,
                  [j \in 1..(BMax(0, (IF k < Len(a) THEN k ELSE Len(a)) - BMax(1, k + 1 - Len(b)) + 1)) |->
                       BMax(1, k + 1 - Len(b)) + j - 1])])
BCmp(a, b) ==
  IF Len(a) < Len(b) THEN 0 - 1 ELSE IF Len(a) > Len(b) THEN 1
  ELSE LET top == FoldLeft(LAMBDA acc, i : IF a[i] # b[i] THEN i ELSE acc, 0, Iota(Len(a)))
       IN IF top = 0 THEN 0 ELSE IF a[top] < b[top] THEN 0 - 1 ELSE 1
BSub1(a) ==      \* a >= 1
  LET f == FoldLeft(LAMBDA acc, i : IF acc = 0 /\ a[i] # 0 THEN i ELSE acc, 0, Iota(Len(a)))
  IN BNorm([i \in 1..Len(a) |-> IF i < f THEN 999 ELSE IF i = f THEN a[i] - 1 ELSE a[i]])
\* big-endian decimal digits -> BigNat
BFromDigits(ds) ==
  LET n == Len(ds)
      D(i) == IF i >= 1 THEN ds[i] ELSE 0
  IN BNorm([k \in 1..((n + 2) \div 3) |-> D(n - 3 * k + 3) + 10 * D(n - 3 * k + 2) + 100 * D(n - 3 * k + 1)])
BPow10(n) == [i \in 1..(n \div 3) |-> 0] \o <<CASE n % 3 = 0 -> 1 [] n % 3 = 1 -> 10 [] OTHER -> 100>>
P2Small(k) == FoldLeft(LAMBDA acc, i : acc * 2, 1, Iota(k))     \* k <= 20
BPow2(n) == BMulSmall(FoldLeft(LAMBDA acc, i : BMulSmall(acc, 1048576), <<1>>, Iota(n \div 20)), P2Small(n % 20))
BEven(a) == a = <<>> \/ a[1] % 2 = 0

(*************** exact round-to-nearest-even (C07 / C08) ****************)
\* Is F * 2^p the round-to-nearest-even image of the exact value V * 10^v10 * 2^v2 ?
\* lowHalf: the gap below F*2^p is half the gap above (F is the smallest normal significand, not the
\* smallest exponent).  All quantities are naturals except the exponents v10, v2, p (integers).
NearestOk(V, v10, v2, F, p, lowHalf) ==
  LET d2  == v2 - (p - 1)
      A   == BMul(BMul(V, BPow10(IF v10 > 0 THEN v10 ELSE 0)), BPow2(IF d2 > 0 THEN d2 ELSE 0))
      scB == BMul(BPow10(IF v10 < 0 THEN 0 - v10 ELSE 0), BPow2(IF d2 < 0 THEN 0 - d2 ELSE 0))
      twoF == BMulSmall(F, 2)
      even == BEven(F)
      cu  == BCmp(A, BMul(BAdd(twoF, <<1>>), scB))
  IN /\ (cu < 0 \/ (cu = 0 /\ even))
     /\ IF F = <<>> THEN TRUE
        ELSE IF lowHalf
             THEN LET cl == BCmp(BMulSmall(A, 2), BMul(BSub1(BMulSmall(F, 4)), scB)) IN cl > 0 \/ (cl = 0 /\ even)
             ELSE LET cl == BCmp(A, BMul(BSub1(twoF), scB)) IN cl > 0 \/ (cl = 0 /\ even)

\* Is the double with sign `neg`, biased exponent `e` and 52-bit fraction field given by its
\* decimal digits `mds` THE IEEE-754 round-to-nearest-even image of the literal?  (Unique.)
F64Sig(e, mds) == LET frac == BFromDigits(StripZ(mds)) IN IF e = 0 THEN frac ELSE BAdd(frac, BPow2(52))
F64Exp(e) == IF e = 0 THEN 0 - 1074 ELSE e - 1075
CorrectlyRounded(lit, neg, e, mds) ==
  LET sc == Scan(lit)
      M  == BFromDigits(StripZ(Mant(sc)))
      q  == ExpField(sc) - Len(sc.fd)
      frac == BFromDigits(StripZ(mds))
      F  == F64Sig(e, mds)
  IN /\ neg = sc.neg
     /\ e <= 2046
     /\ BCmp(frac, BPow2(52)) < 0
     /\ IF IsZeroLit(sc) THEN e = 0 /\ F = <<>>
        ELSE IF Sci(sc) > 310 THEN FALSE                 \* infinite: must have been rejected
        ELSE IF Sci(sc) < 0 - 340 THEN e = 0 /\ F = <<>> \* underflows to zero
        ELSE NearestOk(M, q, 0, F, F64Exp(e), e > 1 /\ frac = <<>>)
FloatMatches(lit, d) == CorrectlyRounded(lit, d.neg, d.e, d.m)

\* binary32 obtained from a binary64 by ONE narrowing (round-to-nearest-even, overflow to infinity)
F32Sig(e8, mds) == LET frac == BFromDigits(StripZ(mds)) IN IF e8 = 0 THEN frac ELSE BAdd(frac, BPow2(23))
F32Exp(e8) == IF e8 = 0 THEN 0 - 149 ELSE e8 - 150
NarrowOk(neg, e, mds, neg32, e8, m23) ==
  LET F == F64Sig(e, mds)  p == F64Exp(e)
      frac32 == BFromDigits(StripZ(m23))
  IN /\ neg32 = neg
     /\ BCmp(frac32, BPow2(23)) < 0
     /\ IF e8 = 255 THEN \* infinity: the value is at least (2^25 - 1) * 2^103
             /\ frac32 = <<>>
             /\ LET d == p - 103 IN
                IF d >= 0 THEN BCmp(BMul(F, BPow2(d)), BSub1(BPow2(25))) >= 0
                ELSE BCmp(F, BMul(BSub1(BPow2(25)), BPow2(0 - d))) >= 0
        ELSE IF F = <<>> THEN e8 = 0 /\ frac32 = <<>>
        ELSE NearestOk(F, 0, p, F32Sig(e8, m23), F32Exp(e8), e8 > 1 /\ frac32 = <<>>)

\* ---- integer targets: an integer literal is accepted exactly when it lies in the target's range ----
IntMaxDigits(bits, signed, neg) ==
  CASE bits = 8   -> IF ~signed THEN <<2,5,5>> ELSE IF neg THEN <<1,2,8>> ELSE <<1,2,7>>
    [] bits = 16  -> IF ~signed THEN <<6,5,5,3,5>> ELSE IF neg THEN <<3,2,7,6,8>> ELSE <<3,2,7,6,7>>
    [] bits = 32  -> IF ~signed THEN <<4,2,9,4,9,6,7,2,9,5>> ELSE IF neg THEN <<2,1,4,7,4,8,3,6,4,8>> ELSE <<2,1,4,7,4,8,3,6,4,7>>
    [] bits = 64  -> IF ~signed THEN U64Max ELSE IF neg THEN I64MinAbs ELSE <<9,2,2,3,3,7,2,0,3,6,8,5,4,7,7,5,8,0,7>>
    [] bits = 128 -> IF ~signed THEN <<3,4,0,2,8,2,3,6,6,9,2,0,9,3,8,4,6,3,4,6,3,3,7,4,6,0,7,4,3,1,7,6,8,2,1,1,4,5,5>>
                     ELSE IF neg THEN <<1,7,0,1,4,1,1,8,3,4,6,0,4,6,9,2,3,1,7,3,1,6,8,7,3,0,3,7,1,5,8,8,4,1,0,5,7,2,8>>
                     ELSE <<1,7,0,1,4,1,1,8,3,4,6,0,4,6,9,2,3,1,7,3,1,6,8,7,3,0,3,7,1,5,8,8,4,1,0,5,7,2,7>>
\* "yes" | "no" | "open" (the literal -0 / -00..: an integer by value, a float by classification)
IntAccepts(bits, signed, lit) ==
  LET sc == Scan(lit)  mag == StripZ(sc.id) IN
  IF ~IsPlainInt(sc) THEN "no"
  ELSE IF sc.neg /\ mag = <<>> THEN "open"
  ELSE IF sc.neg /\ ~signed THEN "no"
  ELSE IF CmpInt(mag, IntMaxDigits(bits, signed, sc.neg)) <= 0 THEN "yes" ELSE "no"

\* ---- number grammar over bytes (independent of JsonText's class machine) ----
NumGrammarStep(m, b) ==
  CASE m = "start" -> (CASE b = 45 -> "minus" [] b = 48 -> "zero" [] b \in 49..57 -> "int" [] OTHER -> "bad")
    [] m = "minus" -> (CASE b = 48 -> "zero" [] b \in 49..57 -> "int" [] OTHER -> "bad")
    [] m = "zero"  -> (CASE b = 46 -> "frac0" [] b \in {101, 69} -> "exp0" [] OTHER -> "bad")
    [] m = "int"   -> (CASE IsDigitB(b) -> "int" [] b = 46 -> "frac0" [] b \in {101, 69} -> "exp0" [] OTHER -> "bad")
    [] m = "frac0" -> IF IsDigitB(b) THEN "frac" ELSE "bad"
    [] m = "frac"  -> (CASE IsDigitB(b) -> "frac" [] b \in {101, 69} -> "exp0" [] OTHER -> "bad")
    [] m = "exp0"  -> (CASE IsDigitB(b) -> "exp" [] b \in {43, 45} -> "exps" [] OTHER -> "bad")
    [] m = "exps"  -> IF IsDigitB(b) THEN "exp" ELSE "bad"
    [] m = "exp"   -> IF IsDigitB(b) THEN "exp" ELSE "bad"
    [] OTHER -> "bad"
IsNumberLit(lit) == FoldLeft(NumGrammarStep, "start", lit) \in {"zero", "int", "frac", "exp"}
=============================================================================
