------------------------------ MODULE OwnedLazy ------------------------------
(***************************************************************************)
(* Lazy / owned-lazy values as views of their source text (C13).           *)
(* The abstract state of an owned-lazy value is the plain tree it denotes  *)
(* (Strip form: numbers by literal text, strings by code points, objects   *)
(* as ORDERED member sequences with duplicates, as LazyObject is a Vec).   *)
(* The implementation's LazyPacked states (Raw+cache / NonEscStr / Parsed  *)
(* one level) are refinements that must not be observable: every accessor  *)
(* equals the accessor of the denoted value, serialisation denotes the     *)
(* model, and is the raw text verbatim while nothing was mutated.          *)
(***************************************************************************)
EXTENDS LazyGet

SNull == [t |-> "null"]
\* navigate a Strip value
RECURSIVE SNav(_, _)
SFirst(m, s) == LET hits == {i \in 1..Len(m) : m[i][1] = s} IN IF hits = {} THEN 0 ELSE CHOOSE i \in hits : \A j \in hits : i <= j
SNav(v, path) ==
  IF path = <<>> THEN [ok |-> TRUE, v |-> v]
  ELSE LET e == Head(path) IN
       IF e.k = "key" THEN (IF v.t = "obj" /\ SFirst(v.m, e.s) # 0 THEN SNav(v.m[SFirst(v.m, e.s)][2], Tail(path)) ELSE [ok |-> FALSE])
       ELSE (IF v.t = "arr" /\ e.i < Len(v.e) THEN SNav(v.e[e.i + 1], Tail(path)) ELSE [ok |-> FALSE])
\* the mutation at the addressed value
NewKey == <<110, 101, 119>>      \* "new"
LeafOp(op, v, x) ==
  CASE op = "push"        -> [v EXCEPT !.e = Append(@, x)]
    [] op = "pop"         -> [v EXCEPT !.e = SubSeq(@, 1, Len(@) - 1)]
    [] op = "append_pair" -> [v EXCEPT !.m = Append(@, <<NewKey, x>>)]
    [] op = "replace"     -> x
    [] op = "take"        -> SNull
    [] OTHER -> v
\* apply the mutation to the value at path (caller guarantees the path resolves)
RECURSIVE SUpdate(_, _, _, _)
SUpdate(v, path, op, x) ==
  IF path = <<>> THEN LeafOp(op, v, x)
  ELSE LET e == Head(path) IN
       IF e.k = "key" THEN LET i == SFirst(v.m, e.s) IN [v EXCEPT !.m[i][2] = SUpdate(v.m[i][2], Tail(path), op, x)]
       ELSE [v EXCEPT !.e[e.i + 1] = SUpdate(v.e[e.i + 1], Tail(path), op, x)]

\* one step of a history: returns <<model', applied>>
OStep(m, op, path, x) ==
  LET nav == SNav(m, path) IN
  IF op = "clone" THEN <<m, TRUE>>
  ELSE IF ~nav.ok THEN <<m, FALSE>>
  ELSE CASE op \in {"read", "get_mut"} -> <<m, TRUE>>
         [] op = "push"    -> IF nav.v.t = "arr" THEN <<SUpdate(m, path, op, x), TRUE>> ELSE <<m, FALSE>>
         [] op = "pop"     -> IF nav.v.t = "arr" /\ nav.v.e # <<>> THEN <<SUpdate(m, path, op, x), TRUE>> ELSE <<m, FALSE>>
         [] op = "append_pair" -> IF nav.v.t = "obj" THEN <<SUpdate(m, path, op, x), TRUE>> ELSE <<m, FALSE>>
         [] op \in {"replace", "take"} -> <<SUpdate(m, path, op, x), TRUE>>
         [] OTHER -> <<m, FALSE>>
=============================================================================
