---------------------------- MODULE Trace_Skipper ----------------------------
(* Trace validation of the bitmap container skipper at its real block size (hook: sonic_rs::verif::verif_skip).
   A recorded run is  start(left, right)  followed by the blocks the driver fed to the per-block step, each with the
   carried state before and after and the result.  The specification's state advances with BlkStep; every block must
   start from the specification's state (the code carried exactly that), end in it, and return its result; while the
   precondition (backslashes only inside strings) has held since start, the scalar reference must agree as well.   *)
EXTENDS Skipper, Json, IOUtils, TLC
Rec == ndJsonDeserialize(IOEnv.TRACE)
VARIABLES l, st, lr, pre
vars == <<l, st, lr, pre>>
AsSt(q) == [ins |-> q[1], esc |-> q[2], l |-> q[3], r |-> q[4]]
BlockBad(r) ==
  LET x == BlkStep(st, r.data, lr[1], lr[2])
      ok == pre /\ BackslashOnlyInStrings([esc |-> st.esc, ins |-> st.ins, l |-> st.l, r |-> st.r], r.data)
      y == RefStepBlk(st, r.data, lr[1], lr[2])
  IN {c \in {"carried-state", "result", "state-after", "reference"} :
        \/ (c = "carried-state" /\ AsSt(r.pre) # st)
        \/ (c = "result" /\ r.res # x.res)
        \/ (c = "state-after" /\ AsSt(r.post) # x.st)
        \/ (c = "reference" /\ ok /\ (y.res # r.res \/ (y.res = 0 /\ y.st # AsSt(r.post))))}
EscBad(r) == LET d == EscapedDirect(r.prev, r.bs) IN
             {c \in {"escape-mask", "escape-carry"} : (c = "escape-mask" /\ d.mask # r.mask) \/ (c = "escape-carry" /\ d.carry # r.carry)}
EventBad(r) == CASE r.ev = "start" -> {} [] r.ev = "block" -> BlockBad(r) [] r.ev = "esc" -> EscBad(r) [] OTHER -> {"unknown-event"}
Init == l = 1 /\ st = BlkInit /\ lr = <<91, 93>> /\ pre = TRUE
Next == /\ l <= Len(Rec)
        \* the rejection is reported here (the postcondition cannot see the state variables)
        /\ LET bad == EventBad(Rec[l]) IN (bad # {} => PrintT(<<"TRACE-REJECT", l, ToJson(bad)>>)) /\ bad = {}
        /\ l' = l + 1
        /\ LET r == Rec[l] IN
           CASE r.ev = "start" -> st' = BlkInit /\ lr' = <<r.left, r.right>> /\ pre' = TRUE
             [] r.ev = "block" -> /\ st' = BlkStep(st, r.data, lr[1], lr[2]).st /\ lr' = lr
                                  /\ pre' = (pre /\ BackslashOnlyInStrings([esc |-> st.esc, ins |-> st.ins, l |-> st.l, r |-> st.r], r.data))
             [] OTHER -> UNCHANGED <<st, lr, pre>>
Spec == Init /\ [][Next]_vars
TraceAccepted ==
  LET d == TLCGet("stats").diameter IN
  IF d = Len(Rec) + 1 THEN PrintT(<<"TRACE-OK", Len(Rec)>>) ELSE FALSE
=============================================================================
