CONSTANTS
  MaxDepth = 100000
  Checks = {"c05", "c06"}
INIT Init
NEXT Next
POSTCONDITION TraceAccepted
CHECK_DEADLOCK FALSE
