------------------------------- MODULE MC_Simd -------------------------------
(* Generates the primitive tables: every byte value in every lane against the constants the scanners use, bit-mask
   operations over single-bit / dense / boundary masks, prefix xor, whitespace classifier, 16-digit reader.        *)
EXTENDS Simd, Json
CONSTANT EmitOn
Consts == {92, 34, 31, 48, 57, 32, 127, 128, 0, 255}
Ramp(k, n) == [i \in 1..n |-> (k + (i - 1) * 7) % 256]          \* every lane sees every byte value as k ranges over 0..255
Patterns(n) == {[i \in 1..n |-> IF i = p THEN 1 ELSE 0] : p \in 1..n} \cup {[i \in 1..n |-> 0], [i \in 1..n |-> 1]}
               \cup {[i \in 1..n |-> IF i % 2 = 0 THEN 1 ELSE 0], [i \in 1..n |-> IF i % 3 = 0 THEN 1 ELSE 0], [i \in 1..n |-> IF i > n \div 2 THEN 1 ELSE 0],
                     [i \in 1..n |-> IF (i * i) % 5 < 2 THEN 1 ELSE 0]}
Cases ==
  {[op |-> "cmp", n |-> n, a |-> Ramp(k, n), c |-> c] : n \in {16, 32, 64}, k \in 0..255, c \in Consts}
  \cup {[op |-> "bits", n |-> n, x |-> x, y |-> y, k |-> k] : n \in {32}, x \in Patterns(32), y \in {[i \in 1..32 |-> IF i = p THEN 1 ELSE 0] : p \in {1, 2, 17, 32}} \cup {[i \in 1..32 |-> 0]}, k \in {0, 1, 31, 32}}
  \cup {[op |-> "bits", n |-> n, x |-> x, y |-> y, k |-> k] : n \in {64}, x \in Patterns(64), y \in {[i \in 1..64 |-> IF i = p THEN 1 ELSE 0] : p \in {1, 33, 64}} \cup {[i \in 1..64 |-> 0]}, k \in {0, 7, 63, 64}}
  \cup {[op |-> "bits", n |-> n, x |-> x, y |-> y, k |-> k] : n \in {16}, x \in Patterns(16), y \in {[i \in 1..16 |-> IF i = p THEN 1 ELSE 0] : p \in {1, 9, 16}} \cup {[i \in 1..16 |-> 0]}, k \in {0, 3, 16}}
  \cup {[op |-> "space", data |-> [i \in 1..64 |-> IF (i + s) % m = 0 THEN w ELSE 97 + (i % 20)]] : s \in 0..3, m \in {1, 2, 3, 7, 64}, w \in {9, 10, 13, 32, 11, 12, 0, 160}}
  \cup {[op |-> "space", data |-> Ramp(k, 64)] : k \in 0..255}
  \cup {[op |-> "str2int", bytes |-> [i \in 1..20 |-> IF i <= r THEN 48 + (i % 10) ELSE t], need |-> 16] : r \in {1, 8, 15}, t \in 0..255}
  \cup {[op |-> "str2int", bytes |-> [i \in 1..20 |-> IF i <= r THEN 48 + ((i * d) % 10) ELSE t], need |-> nd] : r \in 1..17, d \in {1, 3, 9}, t \in {46, 101, 32, 47, 58}, nd \in {1, 8, 15, 16}}
VARIABLE cur
Init == cur \in Cases
Next == UNCHANGED cur
Expected(c) ==
  CASE c.op = "cmp" -> [eq |-> EqMask(c.a, Splat(c.c, c.n)), le |-> LeMask(c.a, Splat(c.c, c.n)), gt |-> GtMaskSigned(c.a, Splat(c.c, c.n)), les |-> LeMaskSigned(c.a, Splat(c.c, c.n)), ge |-> GtMaskSigned(Splat(c.c, c.n), c.a),
                        first |-> FirstOffset(EqMask(c.a, Splat(c.c, c.n)))]
    [] c.op = "bits" -> [first |-> FirstOffset(c.x), before |-> Before(c.x, c.y), allzero |-> AllZero(c.x), clear |-> ClearHighBits(c.x, c.k),
                         prefix |-> PrefixXor(c.x), orm |-> OrMask(c.x, c.y), andm |-> AndMask(c.x, c.y)]
    [] c.op = "space" -> [bits |-> NonSpaceBits(c.data)]
    [] OTHER -> Str2Int(c.bytes, c.need)
Emit == EmitOn => PrintT(<<"B", ToJson([case |-> cur, want |-> Expected(cur)])>>)
\* sanity of the definitions themselves
Laws == cur.op = "bits" => /\ PrefixXor(PrefixXor(cur.x)) = PrefixXor(PrefixXor(cur.x))
                           /\ (AllZero(cur.x) <=> FirstOffset(cur.x) = Len(cur.x))
                           /\ ClearHighBits(cur.x, 0) = cur.x
=============================================================================
