----------------------------- MODULE Trace_Serde -----------------------------
(* Trace validation for C04 (typed deserialization agrees with serde_json; the specification's Accepts is the third
   opinion) and C19 (conversion through the DOM commutes with conversion through text; equality laws).           *)
EXTENDS Serde, Conform, Json, IOUtils
Rec == ndJsonDeserialize(IOEnv.TRACE)
CONSTANT Checks
\* tags of known findings: a line rejected only for these is reported (TOLERATED) and the validation continues
Tolerated == {"tovalue-f32", "bytes-lone-surrogate"}
VARIABLE l
vars == <<l>>

\* a \uD800..\uDFFF escape somewhere in the text
HasSurrogateEscape(t) == \E i \in 1..(Len(t) - 3) : t[i] = 92 /\ t[i + 1] = 117 /\ t[i + 2] \in {100, 68} /\ t[i + 3] \in {56, 57} \cup (97..102) \cup (65..70)
DeBad(r) ==
  LET x == r.res
      d == BRun(r.text, FALSE)
      valid == d.s.m = "end" /\ ~d.inf
      desc == Types[r.ty]
      \* documented difference: an f32 target narrows the f64 result (serde_json rejects what does not fit f32)
      f32big == r.ty = "f32" /\ valid /\ d.root.t = "num" /\ Sci(Scan(d.root.lit)) >= 38
      \* C02 takes precedence over serde_json's laxness: text that is not grammatical (serde_json does not validate the
      \* strings it skips or reads as raw bytes: raw control characters), or that is not UTF-8 outside a byte-buffer position,
      \* may be rejected although serde_json accepts it.  r.blobonly: by construction of the generator every non-UTF-8 byte
      \* of the text is inside a string read into a byte buffer.  Grammaticality is judged with bytes >= 0x80 replaced by a
      \* letter (they can only occur inside strings), so that it does not depend on UTF-8 validity.
      gram == AcceptsLax([i \in 1..Len(r.text) |-> IF r.text[i] >= 128 THEN 97 ELSE r.text[i]])
      strictutf8 == ~x.sonic_ok /\ x.sj_ok /\ (~gram \/ (~r.blobonly /\ ~Utf8Valid(r.text)))
      differs == x.sonic_ok # x.sj_ok \/ ~x.str_agrees \/ (x.sonic_ok /\ x.sj_ok /\ ~x.equal)
      \* known finding F27: an unpaired surrogate escape in a string read into a byte buffer
      lonesur == r.bytesfam /\ HasSurrogateEscape(r.text) /\ ~x.sonic_ok /\ x.sj_ok
  IN IF x.panic THEN {"panic"}
     ELSE IF f32big \/ strictutf8 THEN {}
     ELSE {c \in {"diff", "bytes-lone-surrogate", "model"} :
        \/ (c = "diff" /\ differs /\ ~lonesur)
        \/ (c = "bytes-lone-surrogate" /\ differs /\ lonesur)
        \* the model is compared with serde_json on well-formed text of the modelled family
        \/ (c = "model" /\ valid /\ desc.k # "opaque" /\ Accepts(desc, Strip(d.root)) # x.sj_ok)}

ConvBad(r) ==
  IF r.panic THEN {"panic"}
  ELSE LET wide == r.ty \in {"u128", "i128", "map_i128_u8"}      \* 128-bit integers (values or keys) have no DOM form: the DOM route fails
           d == IF r.text.ok THEN BRun(r.text.b, FALSE) ELSE BInit(FALSE)
       IN {c \in {"text", "dom", "tovalue", "tovalue-f32", "eq", "back_text", "back_dom"} :
        \/ (c = "text" /\ ~r.text.ok)
        \/ (c = "dom" /\ ~r.dom.ok /\ ~wide)
        \* a 128-bit integer has a DOM form exactly when it fits i64 or u64
        \/ (c = "dom" /\ r.ty \in {"u128", "i128"} /\ r.text.ok /\ r.dom.ok # (IntAccepts(64, TRUE, r.text.b) = "yes" \/ IntAccepts(64, FALSE, r.text.b) = "yes"))
        \/ (c = "tovalue" /\ r.ty # "f32" /\ r.text.ok /\ r.dom.ok /\ ~(d.s.m = "end" /\ ValMatchesU(d.root, r.dom.dump)))
        \/ (c = "tovalue-f32" /\ r.ty = "f32" /\ r.text.ok /\ r.dom.ok /\ ~(d.s.m = "end" /\ ValMatchesU(d.root, r.dom.dump)))
        \* (a raw number may hold a literal beyond the range of f64: its text does not parse in the default mode)
        \/ (c = "eq" /\ r.ty # "f32" /\ r.text.ok /\ r.dom.ok /\ ~d.inf /\ ~(r.dom.eq_parsed[1] /\ r.dom.eq_parsed[2]))
        \/ (c = "back_text" /\ r.text.ok /\ ~(r.back_text.ok /\ r.back_text.same))
        \/ (c = "back_dom" /\ r.dom.ok /\ ~(r.back_dom.ok /\ r.back_dom.same))}

\* structural equality of two dumps, insensitive to member order (documents without repeated names).  Numbers: equal dumps are
\* equal, -0.0 equals 0.0 (as for the primitives); an integer against a float (0 vs 0.0, 1 vs 1.0) is left open (loose = TRUE
\* answers "may be equal", loose = FALSE answers "must be equal").
NumEq(a, b, loose) == \/ a = b
                      \/ (a.k = "f64" /\ b.k = "f64" /\ a.e = 0 /\ b.e = 0 /\ a.m = <<0>> /\ b.m = <<0>>)
                      \/ (loose /\ a.k # b.k)
RECURSIVE EqDumpL(_, _, _)
EqDumpL(a, b, loose) ==
  /\ a.t = b.t
  /\ CASE a.t \in {"null"} -> TRUE
       [] a.t = "bool" -> a.b = b.b
       [] a.t = "str" -> a.s = b.s
       [] a.t = "num" -> NumEq(a, b, loose)
       [] a.t = "arr" -> Len(a.e) = Len(b.e) /\ \A i \in 1..Len(a.e) : EqDumpL(a.e[i], b.e[i], loose)
       [] a.t = "obj" -> Len(a.m) = Len(b.m) /\ \A i \in 1..Len(a.m) : \E j \in 1..Len(b.m) : a.m[i][1] = b.m[j][1] /\ EqDumpL(a.m[i][2], b.m[j][2], loose)
       [] OTHER -> FALSE
RECURSIVE DumpDups(_)
DumpDups(d) == CASE d.t = "arr" -> \E i \in 1..Len(d.e) : DumpDups(d.e[i])
                 [] d.t = "obj" -> (\E i, j \in 1..Len(d.m) : i # j /\ d.m[i][1] = d.m[j][1]) \/ (\E i \in 1..Len(d.m) : DumpDups(d.m[i][2]))
                 [] OTHER -> FALSE
EqBad(r) ==
  {c \in {"reflexive", "symmetric", "value"} :
     \/ (c = "reflexive" /\ ~(r.aa /\ r.bb))
     \/ (c = "symmetric" /\ r.ab # r.ba)
     \/ (c = "value" /\ ~DumpDups(r.da) /\ ~DumpDups(r.db) /\ ((r.ab /\ ~EqDumpL(r.da, r.db, TRUE)) \/ (~r.ab /\ EqDumpL(r.da, r.db, FALSE))))}

\* a DOM value against a Rust primitive p of kind i64 / u64 / f64 / bool / str.  v1 = to_value(p), v2 = parse(to_string(p)),
\* q another primitive of the same kind, v3 = parse(to_string(r)) for a primitive r of any kind.
JType(k) == IF k \in {"i64", "u64", "f64"} THEN "num" ELSE IF k = "vec" THEN "arr" ELSE k
EqPrimBad(e) ==
  IF e.panic THEN {"panic"}
  ELSE LET r == e.r  exact == e.kind \in {"i64", "u64", "bool", "str", "vec"} /\ e.rkind \in {"i64", "u64", "bool", "str", "vec"} IN
  {c \in {"prim-tovalue", "prim-parsed", "prim-distinct", "prim-symmetric", "prim-cross", "prim-same", "prim-exact", "prim-from", "prim-json"} :
     \/ (c = "prim-from" /\ ~r.f1)                               \* Value::from(p) = to_value(p), and it serialises to to_string(p)
     \/ (c = "prim-json" /\ ~r.j1)                               \* json!(p) likewise
     \/ (c = "prim-tovalue" /\ ~(r.a1 /\ r.a2))                  \* to_value(p) == p, both argument orders
     \/ (c = "prim-parsed" /\ ~(r.b1 /\ r.b2))                   \* parse(to_string(p)) == p
     \/ (c = "prim-distinct" /\ r.c # r.pq)                      \* to_value(p) == q  exactly when  p == q
     \/ (c = "prim-symmetric" /\ r.d1 # r.d2)
     \/ (c = "prim-cross" /\ JType(e.kind) # JType(e.rkind) /\ r.d1)   \* a number never equals a string or a boolean ...
     \/ (c = "prim-same" /\ e.kind = e.rkind /\ e.ptext = e.rtext /\ ~r.d1)
     \* integers, booleans and strings have one canonical text: equal exactly when the texts are equal
     \/ (c = "prim-exact" /\ exact /\ r.d1 # (e.ptext = e.rtext /\ JType(e.kind) = JType(e.rkind)))}

EventBad(r) == CASE r.ev = "de" -> DeBad(r) [] r.ev = "conv" -> ConvBad(r) [] r.ev = "eq" -> EqBad(r) [] r.ev = "eqprim" -> EqPrimBad(r) [] OTHER -> {"unknown-event"}
Init == l = 1
Next == /\ l <= Len(Rec)
        /\ LET bad == EventBad(Rec[l]) IN bad \subseteq Tolerated /\ (bad # {} => PrintT(<<"TOLERATED", l, ToJson(bad)>>))
        /\ l' = l + 1
Spec == Init /\ [][Next]_vars
TraceAccepted ==
  LET d == TLCGet("stats").diameter IN
  IF d = Len(Rec) + 1 THEN PrintT(<<"TRACE-OK", Len(Rec)>>)
  ELSE /\ PrintT(<<"TRACE-REJECT", d, ToJson(EventBad(Rec[d]))>>)
       /\ FALSE
=============================================================================
