---------------------------- MODULE MC_LazyCache ----------------------------
EXTENDS LazyCache, Json
CONSTANTS EmitOn, P1, P2, P3
ProgDef == [t \in Threads |-> CASE t = "t1" -> P1 [] t = "t2" -> P2 [] OTHER -> P3]
ProgId == <<P1, P2, P3>>
Emit == (EmitOn /\ ownerDone) => PrintT(<<"B", ToJson([prog |-> ProgId, sched |-> sched, crashed |-> crashed])>>)
\* for the weak-CAS variant: emit the schedules that reach a bad dereference (to be replayed with failure injection)
EmitBad == (EmitOn /\ crashed) => PrintT(<<"B", ToJson([prog |-> ProgId, sched |-> sched, crashed |-> TRUE])>>)
=============================================================================
