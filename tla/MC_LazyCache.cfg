CONSTANTS
  Threads = {"t1", "t2", "t3"}
  Prog <- ProgDef
  P1 = "read"
  P2 = "read"
  P3 = "read"
  WeakCas = TRUE
  EmitOn = FALSE
INIT Init
NEXT Next
INVARIANTS NoBadDeref NoDoubleFree AllAgree OneSurvivor AllReleased Emit
CHECK_DEADLOCK FALSE
