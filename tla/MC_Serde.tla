------------------------------- MODULE MC_Serde -------------------------------
(* Enumerates every (type, shape) pair of the C04 family with the specification's verdict and emits it for the
   three-way comparison sonic-rs / serde_json / specification.                                               *)
EXTENDS Serde, Json
CONSTANT EmitOn
Names == DOMAIN Types
ShapesOf(name) == IF Types[name].k = "opaque" THEN OpaqueShapes ELSE Shapes(Types[name])
AllPairs == {<<name, v>> : name \in Names, v \in UNION {ShapesOf(nm) : nm \in Names}} \cap
            UNION {{<<name, v>> : v \in ShapesOf(name)} : name \in Names}
VARIABLE cur
Init == cur \in UNION {{<<name, v>> : v \in ShapesOf(name)} : name \in Names}
Next == UNCHANGED cur
\* every value the generator calls "matching" is accepted by the model of its type
MatchAccepted == \A name \in Names : Types[name].k # "opaque" => \A v \in Match(Types[name]) : Accepts(Types[name], v)
Emit == EmitOn => PrintT(<<"B", ToJson([ty |-> cur[1], text |-> SerS(cur[2]),
                                        accept |-> IF Types[cur[1]].k = "opaque" THEN "unknown" ELSE IF Accepts(Types[cur[1]], cur[2]) THEN "yes" ELSE "no"])>>)
=============================================================================
