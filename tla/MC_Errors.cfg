INIT Init
NEXT Next
INVARIANTS LineColOk ClampOk
CHECK_DEADLOCK FALSE
