------------------------------- MODULE MC_Dom -------------------------------
(* Exhaustive check of the DOM life-cycle model and emission of every history of length MaxOps
   with the expected contents of every slot after every step (for replay into the real DOM). *)
EXTENDS Dom, Json
CONSTANTS EmitOn
\* expected observation after the last step: contents of every slot + number of live arenas
Obs == [m |-> [s \in Slots |-> model[s]], live |-> LiveArenas]
VARIABLE obsl                       \* observations after each step (parallel to hist)
mcvars == <<vars, obsl>>
MCInit == Init /\ obsl = <<>>
MCNext == Next /\ obsl' = Append(obsl, [m |-> [s \in Slots |-> model'[s]], live |-> Cardinality({a \in 1..MaxId : arena'[a].alive})])
\* state identity without the history (used by the invariant-only configuration)
StateView == <<slot, arena, vec, map, model>>
Emit == (EmitOn /\ nops = MaxOps) => PrintT(<<"B", ToJson([hist |-> hist, obs |-> obsl])>>)
=============================================================================
