CONSTANTS
  Checks = {"c07"}
INIT Init
NEXT Next
POSTCONDITION TraceAccepted
CHECK_DEADLOCK FALSE
