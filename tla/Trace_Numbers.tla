--------------------------- MODULE Trace_Numbers ---------------------------
(* Trace validation for C07 (numbers are parsed exactly) and C08 (numbers are written so that
   they read back bit-identically).                                                         *)
EXTENDS Numbers, Json, IOUtils
Rec == ndJsonDeserialize(IOEnv.TRACE)
CONSTANT Checks
VARIABLE l
vars == <<l>>

ZeroOr(ds) == IF ds = <<>> THEN <<0>> ELSE ds
IntBits(name) == CASE name \in {"u8", "i8"} -> 8 [] name \in {"u16", "i16"} -> 16 [] name \in {"u32", "i32"} -> 32
                   [] name \in {"u64", "i64"} -> 64 [] OTHER -> 128
BaseName(tn) == CASE tn \in {"u8", "u8_seq", "u8_key"} -> "u8" [] tn \in {"i8", "i8_seq", "i8_key"} -> "i8"
                  [] tn \in {"u16", "u16_seq", "u16_key"} -> "u16" [] tn \in {"i16", "i16_seq", "i16_key"} -> "i16"
                  [] tn \in {"u32", "u32_seq", "u32_key"} -> "u32" [] tn \in {"i32", "i32_seq", "i32_key"} -> "i32"
                  [] tn \in {"u64", "u64_seq", "u64_key"} -> "u64" [] tn \in {"i64", "i64_seq", "i64_key"} -> "i64"
                  [] tn \in {"u128", "u128_seq", "u128_key"} -> "u128" [] tn \in {"i128", "i128_seq", "i128_key"} -> "i128"
                  [] OTHER -> "none"
IsSigned(name) == name \in {"i8", "i16", "i32", "i64", "i128"}

\* classification + value of an any-typed result (DOM number, Number, sonic_number)
AnyOk(lit, x) ==
  /\ x.k = Classify(lit)
  /\ x.k \in {"u64", "i64"} => (x.d = ZeroOr(StripZ(Scan(lit).id)) /\ x.neg = Scan(lit).neg)
  /\ x.k = "f64" => CorrectlyRounded(lit, x.neg, x.e, x.m)

ParseBad(r) ==
  LET lit == r.lit
      gram == IsNumberLit(lit)
      fin == gram /\ LitIsFinite(lit)
      Bad(tn) ==
        LET x == r.res[tn] IN
        \/ x.panic
        \/ /\ ~x.panic /\ tn \in {"value", "value_seq", "number"}
           /\ (x.ok # fin \/ (x.ok /\ ~AnyOk(lit, x)))
        \/ /\ ~x.panic /\ tn = "sonic_number" /\ ~("skip" \in DOMAIN x) /\ gram
           /\ (x.ok # fin \/ (x.ok /\ (~AnyOk(lit, x) \/ x.end # Len(lit))))
        \/ /\ ~x.panic /\ tn \in {"f64", "f64_seq"}
           /\ (x.ok # fin \/ (x.ok /\ ~CorrectlyRounded(lit, x.neg, x.e, x.m)))
        \/ /\ ~x.panic /\ tn = "f32"
           /\ \/ x.ok # fin
              \* f32 = the correctly rounded f64, narrowed once: there is exactly one such f64, the harness
              \* logs it under "f64"; the f32 must be its narrowing
              \/ (x.ok /\ r.res["f64"].ok /\ ~NarrowOk(r.res["f64"].neg, r.res["f64"].e, r.res["f64"].m, x.neg, x.e, x.m))
        \/ /\ ~x.panic /\ tn \in {"rawnumber", "rawnumber_quoted"}
           /\ \/ x.ok # gram
              \/ (x.ok /\ (x.raw # lit \/ x.ser # lit))
              \* (the integer-vs-float reading of "-0" is left open, as for integer targets)
              \/ (x.ok /\ tn = "rawnumber" /\ fin /\ x.as.k # "none" /\ IntAccepts(64, TRUE, lit) # "open" /\ ~AnyOk(lit, x.as))
        \/ /\ ~x.panic /\ BaseName(tn) # "none"
           /\ LET b == BaseName(tn)
                  acc == IF gram THEN IntAccepts(IntBits(b), IsSigned(b), lit) ELSE "no"
              IN \/ (acc = "yes" /\ ~x.ok) \/ (acc = "no" /\ x.ok)
                 \/ (x.ok /\ acc = "yes" /\ (x.d # ZeroOr(StripZ(Scan(lit).id)) \/ x.neg # Scan(lit).neg))
                 \/ (x.ok /\ acc = "open" /\ x.d # <<0>>)
  IN {tn \in DOMAIN r.res : Bad(tn)}

\* digits of an integer as written: text = ["-"] digits, no leading zeros
IntText(neg, d) == (IF neg THEN <<45>> ELSE <<>>) \o [i \in 1..Len(d) |-> d[i] + 48]
WriteBad(r) ==
  IF r.type \in {"f64"} THEN
     {c \in {"grammar", "denotes", "readback", "dom", "domtext"} :
        \/ (c = "grammar" /\ ~IsNumberLit(r.text))
        \/ (c = "denotes" /\ IsNumberLit(r.text) /\ ~CorrectlyRounded(r.text, r.x.neg, r.x.e, r.x.m))
        \/ (c = "readback" /\ ~(r.y.ok /\ r.y.neg = r.x.neg /\ r.y.e = r.x.e /\ r.y.m = r.x.m))
        \/ (c = "dom" /\ ~(r.dom.ok /\ r.dom.neg = r.x.neg /\ r.dom.e = r.x.e /\ r.dom.m = r.x.m))
        \/ (c = "domtext" /\ r.dom_text # r.text)}
  ELSE IF r.type = "f32" THEN
     {c \in {"grammar", "readback"} :
        \/ (c = "grammar" /\ ~IsNumberLit(r.text))
        \/ (c = "readback" /\ ~(r.y.ok /\ r.y.neg = r.x.neg /\ r.y.e = r.x.e /\ r.y.m = r.x.m))}
  ELSE
     {c \in {"text", "readback", "dom"} :
        \/ (c = "text" /\ r.text # IntText(r.x.neg, r.x.d))
        \/ (c = "readback" /\ ~(r.y.ok /\ r.y.neg = r.x.neg /\ r.y.d = r.x.d))
        \/ (c = "dom" /\ "dom" \in DOMAIN r /\ ~(r.dom.ok /\ r.dom.neg = r.x.neg /\ r.dom.d = r.x.d))}

EventBad(r) == CASE r.ev = "parse" -> ParseBad(r) [] r.ev = "write" -> WriteBad(r) [] OTHER -> {"unknown-event"}
Init == l = 1
Next == /\ l <= Len(Rec) /\ EventBad(Rec[l]) = {} /\ l' = l + 1
Spec == Init /\ [][Next]_vars
TraceAccepted ==
  LET d == TLCGet("stats").diameter IN
  IF d = Len(Rec) + 1 THEN PrintT(<<"TRACE-OK", Len(Rec)>>)
  ELSE /\ PrintT(<<"TRACE-REJECT", d, ToJson(EventBad(Rec[d]))>>)
       /\ FALSE
=============================================================================
