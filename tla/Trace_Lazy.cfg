CONSTANTS
  MaxDepth = 100000
  Checks = {"c13"}
INIT Init
NEXT Next
POSTCONDITION TraceAccepted
CHECK_DEADLOCK FALSE
