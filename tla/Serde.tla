-------------------------------- MODULE Serde --------------------------------
(***************************************************************************)
(* Typed deserialization (C04): type descriptors for the core family,      *)
(* Accepts(D, v) - does a JSON value deserialize into the type (serde's    *)
(* data model as serde_json implements it: range checks per integer width,  *)
(* map-key parsing of quoted numbers / bools, enum framing, Option / unit,  *)
(* unknown and duplicate fields, struct-as-sequence) - and Shapes(D): the    *)
(* type-directed set of matching, near-matching and mismatching values.     *)
(* Containers that go through serde's Content buffering (untagged,          *)
(* internally / adjacently tagged, flatten) and borrowed fields have no      *)
(* model: only shapes are supplied, the expectation is serde_json's.        *)
(***************************************************************************)
EXTENDS Naturals, Sequences, FiniteSets, TLC, SequencesExt, Numbers

\* ---- JSON values (Strip form of JsonText: numbers by literal bytes, strings by code points) ----
VNull == [t |-> "null"]
VBool(b) == [t |-> "bool", b |-> b]
VNum(lit) == [t |-> "num", lit |-> lit]
VStr(s) == [t |-> "str", s |-> s]
VArr(e) == [t |-> "arr", e |-> e]
VObj(m) == [t |-> "obj", m |-> m]            \* sequence of <<key code points, value>>

RECURSIVE NatDigits(_)
NatDigits(n) == IF n < 10 THEN <<n>> ELSE Append(NatDigits(n \div 10), n % 10)
DigitsToLit(neg, ds) == (IF neg THEN <<45>> ELSE <<>>) \o [i \in 1..Len(ds) |-> ds[i] + 48]
NatLit(n) == DigitsToLit(FALSE, NatDigits(n))
NegLit(n) == DigitsToLit(TRUE, NatDigits(n))
\* ds + 1 on a digit sequence
IncDigits(ds) == LET r == FoldLeft(LAMBDA acc, i : LET d == ds[Len(ds) + 1 - i] + acc[1] IN <<d \div 10, <<d % 10>> \o acc[2]>>, <<1, <<>>>>, [i \in 1..Len(ds) |-> i])
                 IN IF r[1] = 1 THEN <<1>> \o r[2] ELSE r[2]

\* names used by the registered types, as code points
N == [a |-> <<97>>, b |-> <<98>>, c |-> <<99>>, n |-> <<110>>, t |-> <<116>>, u |-> <<117>>, x |-> <<120>>, y |-> <<121>>, zz |-> <<122, 122>>,
      Aa |-> <<65, 97>>, Bb |-> <<66, 98>>, Unit |-> <<85, 110, 105, 116>>, New |-> <<78, 101, 119>>, Tup |-> <<84, 117, 112>>, Str |-> <<83, 116, 114>>,
      true |-> <<116, 114, 117, 101>>, false |-> <<102, 97, 108, 115, 101>>, one |-> <<49>>, m1 |-> <<45, 49>>, big |-> <<51, 48, 48>>, e |-> <<>>]

\* ---- type descriptors ----
TBool == [k |-> "bool"]
TInt(bits, signed) == [k |-> "int", bits |-> bits, signed |-> signed]
TF64 == [k |-> "f64"]
TChar == [k |-> "char"]
TString == [k |-> "string"]
TUnit == [k |-> "unit"]
TOpt(d) == [k |-> "option", of |-> d]
TSeq(d) == [k |-> "seq", of |-> d]
TTuple(ds) == [k |-> "tuple", of |-> ds]
TMap(kd, d) == [k |-> "map", key |-> kd, of |-> d]
TStruct(fields, deny) == [k |-> "struct", fields |-> fields, deny |-> deny]      \* field: [n |-> name cps, d |-> type, req |-> required]
TNewtype(d) == [k |-> "newtype", of |-> d]
TUnitEnum(vs) == [k |-> "unitenum", vs |-> vs]
TEnum(vs) == [k |-> "enum", vs |-> vs]                                         \* variant: [n |-> name cps, shape |-> "unit"|"newtype"|"tuple"|"struct", of |-> ...]
TOpaque == [k |-> "opaque"]
TIgnored == [k |-> "ignored"]      \* serde::de::IgnoredAny: every well-formed value is accepted

\* ---- Accepts ----
KeyBytes(s) == s     \* a key made of ASCII digits / sign: its code points are its bytes
\* an integer target and the literal -0 (which Numbers leaves "open"): serde reads it as the float -0.0 for the widths up to 64 bits
\* (rejected by an integer target) and as the integer 0 for i128 (its digits are scanned as text); u128 rejects the sign
IntOk(bits, signed, lit) == LET a == IntAccepts(bits, signed, lit) IN IF a = "open" THEN bits = 128 /\ signed ELSE a = "yes"
KeyAccepts(kd, s) ==
  CASE kd.k = "string" -> TRUE
    [] kd.k = "int"    -> IsNumberLit(KeyBytes(s)) /\ IntOk(kd.bits, kd.signed, KeyBytes(s))
    [] kd.k = "bool"   -> s \in {N.true, N.false}
    [] kd.k = "char"   -> Len(s) = 1
    [] kd.k = "unitenum" -> \E i \in 1..Len(kd.vs) : kd.vs[i] = s
    [] OTHER -> FALSE
FieldIdx(fields, s) == LET hit == {i \in 1..Len(fields) : fields[i].n = s} IN IF hit = {} THEN 0 ELSE CHOOSE i \in hit : TRUE
RECURSIVE Accepts(_, _)
StructFromObj(d, v) ==
  /\ \A i \in 1..Len(v.m) : LET f == FieldIdx(d.fields, v.m[i][1]) IN
        IF f = 0 THEN ~d.deny ELSE Accepts(d.fields[f].d, v.m[i][2])
  \* a field given twice is an error
  /\ \A i, j \in 1..Len(v.m) : (i # j /\ v.m[i][1] = v.m[j][1]) => FieldIdx(d.fields, v.m[i][1]) = 0
  /\ \A f \in 1..Len(d.fields) : d.fields[f].req => \E i \in 1..Len(v.m) : v.m[i][1] = d.fields[f].n
StructFromSeq(d, v) ==
  /\ Len(v.e) <= Len(d.fields)
  /\ \A f \in 1..Len(d.fields) : IF f <= Len(v.e) THEN Accepts(d.fields[f].d, v.e[f]) ELSE ~d.fields[f].seqreq
Accepts(d, v) ==
  CASE d.k = "bool"   -> v.t = "bool"
    [] d.k = "ignored" -> TRUE
    [] d.k = "int"    -> v.t = "num" /\ IntOk(d.bits, d.signed, v.lit)
    [] d.k = "f64"    -> v.t = "num" /\ LitIsFinite(v.lit)
    [] d.k = "char"   -> v.t = "str" /\ Len(v.s) = 1
    [] d.k = "string" -> v.t = "str"
    [] d.k = "unit"   -> v.t = "null"
    [] d.k = "option" -> v.t = "null" \/ Accepts(d.of, v)
    [] d.k = "seq"    -> v.t = "arr" /\ \A i \in 1..Len(v.e) : Accepts(d.of, v.e[i])
    [] d.k = "tuple"  -> v.t = "arr" /\ Len(v.e) = Len(d.of) /\ \A i \in 1..Len(v.e) : Accepts(d.of[i], v.e[i])
    [] d.k = "map"    -> v.t = "obj" /\ \A i \in 1..Len(v.m) : KeyAccepts(d.key, v.m[i][1]) /\ Accepts(d.of, v.m[i][2])
    [] d.k = "struct" -> (v.t = "obj" /\ StructFromObj(d, v)) \/ (v.t = "arr" /\ StructFromSeq(d, v))
    [] d.k = "newtype" -> Accepts(d.of, v)
    [] d.k = "unitenum" -> \/ (v.t = "str" /\ \E i \in 1..Len(d.vs) : d.vs[i] = v.s)
                           \/ (v.t = "obj" /\ Len(v.m) = 1 /\ v.m[1][2].t = "null" /\ \E i \in 1..Len(d.vs) : d.vs[i] = v.m[1][1])
    [] d.k = "enum"   ->
         \/ (v.t = "str" /\ \E i \in 1..Len(d.vs) : d.vs[i].n = v.s /\ d.vs[i].shape = "unit")
         \/ (v.t = "obj" /\ Len(v.m) = 1 /\ \E i \in 1..Len(d.vs) :
               /\ d.vs[i].n = v.m[1][1]
               /\ LET x == v.m[1][2] IN
                  CASE d.vs[i].shape = "unit"    -> x.t = "null"
                    [] d.vs[i].shape = "newtype" -> Accepts(d.vs[i].of, x)
                    [] d.vs[i].shape = "tuple"   -> Accepts(TTuple(d.vs[i].of), x)
                    [] OTHER -> Accepts(TStruct(d.vs[i].of, FALSE), x))
    [] OTHER -> FALSE

\* ---- the registered family (names = the harness's registry) ----
F(name, d, req, seqreq) == [n |-> name, d |-> d, req |-> req, seqreq |-> seqreq]
SAb == TStruct(<<F(N.a, TInt(8, FALSE), TRUE, TRUE), F(N.b, TOpt(TString), FALSE, TRUE)>>, FALSE)
SDeny == TStruct(<<F(N.a, TInt(8, FALSE), TRUE, TRUE), F(N.c, TSeq(TInt(16, TRUE)), FALSE, FALSE)>>, TRUE)
EnumE == TEnum(<< [n |-> N.Unit, shape |-> "unit"], [n |-> N.New, shape |-> "newtype", of |-> TInt(8, FALSE)],
                  [n |-> N.Tup, shape |-> "tuple", of |-> <<TInt(8, TRUE), TString>>],
                  [n |-> N.Str, shape |-> "struct", of |-> <<F(N.x, TBool, TRUE, TRUE), F(N.y, TOpt(TInt(8, FALSE)), FALSE, TRUE)>>] >>)
UnitE == TUnitEnum(<<N.Aa, N.Bb>>)
Types == [ bool |-> TBool, u8 |-> TInt(8, FALSE), i8 |-> TInt(8, TRUE), u16 |-> TInt(16, FALSE), i16 |-> TInt(16, TRUE), u32 |-> TInt(32, FALSE), i32 |-> TInt(32, TRUE),
           u64 |-> TInt(64, FALSE), i64 |-> TInt(64, TRUE), u128 |-> TInt(128, FALSE), i128 |-> TInt(128, TRUE), f64 |-> TF64, char |-> TChar, string |-> TString, unit |-> TUnit,
           opt_u8 |-> TOpt(TInt(8, FALSE)), opt_string |-> TOpt(TString), vec_u8 |-> TSeq(TInt(8, FALSE)), vec_string |-> TSeq(TString), vec_opt_i16 |-> TSeq(TOpt(TInt(16, TRUE))),
           tup_u8_string |-> TTuple(<<TInt(8, FALSE), TString>>), tup3 |-> TTuple(<<TBool, TInt(64, TRUE), TOpt(TF64)>>),
           map_string_u8 |-> TMap(TString, TInt(8, FALSE)), hmap_string_vec |-> TMap(TString, TSeq(TInt(8, FALSE))), map_i32_bool |-> TMap(TInt(32, TRUE), TBool),
           map_u64_u8 |-> TMap(TInt(64, FALSE), TInt(8, FALSE)), map_i128_u8 |-> TMap(TInt(128, TRUE), TInt(8, FALSE)), map_bool_u8 |-> TMap(TBool, TInt(8, FALSE)),
           map_char_u8 |-> TMap(TChar, TInt(8, FALSE)), map_unitenum_u8 |-> TMap(UnitE, TInt(8, FALSE)),
           struct_ab |-> SAb, struct_deny |-> SDeny, newtype_i32 |-> TNewtype(TInt(32, TRUE)), unit_enum |-> UnitE, enum_e |-> EnumE, vec_enum_e |-> TSeq(EnumE),
           untagged |-> TOpaque, internal |-> TOpaque, adjacent |-> TOpaque, flatten |-> TOpaque, borrow |-> TOpaque, f32 |-> TOpaque, struct_nested |-> TOpaque, bytes |-> TOpaque,
           ignored |-> TIgnored, vec_ignored |-> TSeq(TIgnored), map_string_ignored |-> TMap(TString, TIgnored),
           enum_z |-> TOpaque, vec_enum_z |-> TOpaque, map_f64_u8 |-> TOpaque, vec_bytebuf |-> TOpaque, struct_bytes |-> TOpaque, tup_bytes |-> TOpaque, map_string_bytebuf |-> TOpaque ]

\* ---- Shapes ----
Scalars == { VNull, VBool(TRUE), VNum(NatLit(0)), VNum(NatLit(1)), VNum(NatLit(255)), VNum(NatLit(256)), VNum(NegLit(1)), VNum(NegLit(129)),
             VNum(<<49, 46, 53>>), VNum(<<49, 101, 50>>), VNum(<<49, 46, 48>>), VStr(<<>>), VStr(N.a), VStr(<<97, 98>>), VStr(N.Aa), VStr(N.Unit), VStr(N.one),
             VArr(<<>>), VObj(<<>>), VArr(<<VNum(NatLit(1))>>), VObj(<< <<N.a, VNum(NatLit(1))>> >>) }
SmallSub == { VNull, VBool(FALSE), VNum(NatLit(7)), VNum(NatLit(300)), VNum(NegLit(1)), VStr(N.a), VArr(<<>>), VObj(<<>>) }
IntBounds(bits, signed) ==
  LET mx == IntMaxDigits(bits, signed, FALSE)  mn == IntMaxDigits(bits, signed, TRUE) IN
  { VNum(DigitsToLit(FALSE, mx)), VNum(DigitsToLit(FALSE, IncDigits(mx))), VNum(NatLit(0)), VNum(NegLit(1)) }
  \cup (IF signed THEN { VNum(DigitsToLit(TRUE, mn)), VNum(DigitsToLit(TRUE, IncDigits(mn))) } ELSE {})
\* one or two matching values
RECURSIVE Match(_)
KeyMatch(kd) == CASE kd.k = "string" -> {N.a, N.e} [] kd.k = "int" -> {N.one} \cup (IF kd.signed THEN {N.m1} ELSE {})
                  [] kd.k = "bool" -> {N.true} [] kd.k = "char" -> {N.x} [] kd.k = "unitenum" -> {kd.vs[1]} [] OTHER -> {}
KeyNear == {N.a, N.one, N.true, N.big, N.Aa, N.e, <<48, 49>>, <<43, 49>>, <<32, 49>>, <<49, 32>>, <<49, 46, 48>>, <<45>>, <<49, 101, 49>>, <<>>, <<45, 49>>, <<9, 49>>}
AnyOf(S) == CHOOSE x \in S : TRUE
Match(d) ==
  CASE d.k = "bool" -> {VBool(TRUE)}
    [] d.k = "ignored" -> {VArr(<<VNum(NatLit(7)), VNull>>)}
    [] d.k = "int" -> {VNum(NatLit(7))}
    [] d.k = "f64" -> {VNum(<<49, 46, 53>>), VNum(NatLit(3))}
    [] d.k = "char" -> {VStr(N.x)}
    [] d.k = "string" -> {VStr(<<97, 98>>)}
    [] d.k = "unit" -> {VNull}
    [] d.k = "option" -> {VNull} \cup Match(d.of)
    [] d.k = "seq" -> {VArr(<<>>), VArr(<<AnyOf(Match(d.of))>>), VArr(<<AnyOf(Match(d.of)), AnyOf(Match(d.of))>>)}
    [] d.k = "tuple" -> {VArr([i \in 1..Len(d.of) |-> AnyOf(Match(d.of[i]))])}
    [] d.k = "map" -> {VObj(<<>>)} \cup {VObj(<< <<ks, AnyOf(Match(d.of))>> >>) : ks \in KeyMatch(d.key)}
    [] d.k = "struct" -> {VObj([i \in 1..Len(d.fields) |-> <<d.fields[i].n, AnyOf(Match(d.fields[i].d))>>]),
                          VArr([i \in 1..Len(d.fields) |-> AnyOf(Match(d.fields[i].d))])}
    [] d.k = "newtype" -> Match(d.of)
    [] d.k = "unitenum" -> {VStr(d.vs[1])}
    [] d.k = "enum" -> {IF d.vs[i].shape = "unit" THEN VStr(d.vs[i].n)
                        ELSE VObj(<< <<d.vs[i].n, CASE d.vs[i].shape = "newtype" -> AnyOf(Match(d.vs[i].of))
                                                    [] d.vs[i].shape = "tuple" -> AnyOf(Match(TTuple(d.vs[i].of)))
                                                    [] OTHER -> AnyOf(Match(TStruct(d.vs[i].of, FALSE)))>> >>) : i \in 1..Len(d.vs)}
    [] OTHER -> {}
\* one-step perturbations of a value
Mutations(v) ==
  CASE v.t = "arr" -> {VArr(SubSeq(v.e, 1, Len(v.e) - 1)) : x \in {1} \cap (IF v.e = <<>> THEN {} ELSE {1})}
                      \cup {VArr(Append(v.e, s)) : s \in {VNum(NatLit(7)), VNull}}
                      \cup {VArr([v.e EXCEPT ![i] = s]) : i \in 1..Len(v.e), s \in SmallSub}
    [] v.t = "obj" -> {VObj(SubSeq(v.m, 1, Len(v.m) - 1)) : x \in {1} \cap (IF v.m = <<>> THEN {} ELSE {1})}
                      \cup {VObj(Append(v.m, <<N.zz, VNum(NatLit(1))>>))}
                      \cup (IF v.m = <<>> THEN {} ELSE {VObj(Append(v.m, v.m[1]))})
                      \cup {VObj([v.m EXCEPT ![i] = <<v.m[i][1], s>>]) : i \in 1..Len(v.m), s \in SmallSub}
                      \cup {VObj([v.m EXCEPT ![i] = <<kk, v.m[i][2]>>]) : i \in 1..Len(v.m), kk \in {N.zz, N.one, N.big, <<48, 49>>, <<43, 49>>, N.false, N.Bb, N.New} \cup KeyNear}
    [] OTHER -> {}
Shapes(d) ==
  LET ms == Match(d) IN
  Scalars \cup ms \cup UNION {Mutations(v) : v \in ms}
  \cup (IF d.k = "int" THEN IntBounds(d.bits, d.signed) ELSE {})
  \cup (IF d.k = "map" /\ d.key.k = "int" THEN {VObj(<< <<DigitsToLit(FALSE, IntMaxDigits(d.key.bits, d.key.signed, FALSE)) , VNum(NatLit(1))>> >>),
                                                VObj(<< <<DigitsToLit(FALSE, IncDigits(IntMaxDigits(d.key.bits, d.key.signed, FALSE))) , VNum(NatLit(1))>> >>)} ELSE {})
\* shapes for the opaque members of the family (expectation = serde_json's)
OpaqueShapes == Scalars \cup UNION {Mutations(v) : v \in {
    VObj(<< <<N.a, VNum(NatLit(1))>>, <<N.zz, VNum(NatLit(2))>> >>), VObj(<< <<N.t, VStr(<<65>>)>>, <<N.c, VNum(NatLit(1))>> >>),
    VObj(<< <<<<116, 121, 112, 101>>, VStr(<<65>>)>>, <<N.x, VNum(NatLit(1))>> >>), VObj(<< <<<<112>>, VNum(NatLit(1))>> >>),
    VArr(<<VNum(NatLit(1)), VNum(NatLit(2))>>), VObj(<< <<<<115>>, VStr(N.a)>>, <<<<107>>, VStr(N.b)>> >>),
    VObj(<< <<N.n, VObj(<< <<N.a, VNum(NatLit(1))>> >>)>>, <<N.t, VArr(<<VNum(NatLit(1)), VStr(N.a)>>)>>, <<N.u, VNull>> >>) }}

\* ---- compact text of a Strip value ----
HexLower2(n) == IF n < 10 THEN 48 + n ELSE 87 + n
EncS(s) == <<34>> \o FoldLeft(LAMBDA acc, cp : acc \o (IF cp = 34 THEN <<92, 34>> ELSE IF cp = 92 THEN <<92, 92>> ELSE IF cp < 32 THEN <<92, 117, 48, 48, HexLower2(cp \div 16), HexLower2(cp % 16)>> ELSE <<cp>>), <<>>, s) \o <<34>>
JoinS(parts, sep) == FoldLeft(LAMBDA acc, i : IF i = 1 THEN parts[1] ELSE acc \o sep \o parts[i], <<>>, [i \in 1..Len(parts) |-> i])
RECURSIVE SerS(_)
SerS(v) == CASE v.t = "null" -> <<110, 117, 108, 108>>
             [] v.t = "bool" -> IF v.b THEN <<116, 114, 117, 101>> ELSE <<102, 97, 108, 115, 101>>
             [] v.t = "num" -> v.lit
             [] v.t = "str" -> EncS(v.s)
             [] v.t = "arr" -> <<91>> \o JoinS([i \in 1..Len(v.e) |-> SerS(v.e[i])], <<44>>) \o <<93>>
             [] v.t = "obj" -> <<123>> \o JoinS([i \in 1..Len(v.m) |-> EncS(v.m[i][1]) \o <<58>> \o SerS(v.m[i][2])], <<44>>) \o <<125>>
=============================================================================
