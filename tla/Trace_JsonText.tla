-------------------------- MODULE Trace_JsonText --------------------------
(* Trace validation (I->S) for JsonText: each recorded event is one document fed to
   every entry point of the implementation; TLC evaluates the byte-level machine on
   the recorded bytes and checks verdicts (C02), denoted values (C03), error
   positions (C20) and the absence of panics (C01).                            *)
EXTENDS Conform, Json, IOUtils
Rec == ndJsonDeserialize(IOEnv.TRACE)
CONSTANT Checks      \* subset of {"verdict", "value", "errpos", "panic"}: which clauses this run decides
VARIABLE l
vars == <<l>>

Full(r, x) == (IF Has(x, "pre") THEN x.pre ELSE <<>>) \o r.b \o (IF Has(x, "post") THEN x.post ELSE <<>>)

DocChecks(r) ==
  LET bs == BRun(r.b, FALSE)  bl == BRun(r.b, TRUE)
      ps == PRun(r.b, FALSE)  pl == PRun(r.b, TRUE)
      strictOk == bs.s.m = "end" /\ ~bs.inf
      laxOk    == bl.s.m = "end"
      pStrict  == ps.root # NoVal /\ ~ps.inf
      pLax     == pl.root # NoVal
      Want(sem) == CASE sem = "strict"  -> strictOk
                     [] sem = "lax"     -> laxOk
                     [] sem = "pstrict" -> pStrict
                     [] sem = "plax"    -> pLax
                     [] sem = "plossy"  -> pLax /\ ~pl.inf
                     [] sem = "praw"    -> ps.root # NoVal
                     [] sem = "kind:str"  -> strictOk /\ bs.root.t = "str"
                     [] sem = "kind:num"  -> strictOk /\ bs.root.t = "num"
                     [] sem = "kind:bool" -> strictOk /\ bs.root.t = "bool"
                     [] sem = "kind:null" -> strictOk /\ bs.root.t = "null"
      SpecVal(sem) == CASE sem \in {"pstrict", "plax", "praw"} -> ps.root
                        [] sem = "plossy" -> pl.root
                        [] OTHER -> bs.root
      amb == PrefixAmbiguous(r.b, TRUE)
      Bad(ep) == LET x == r.res[ep] IN
                 \/ ("panic" \in Checks /\ x.panic)
                 \/ ("verdict" \in Checks /\ ~x.panic /\ x.ok # Want(x.sem) /\ ~(amb /\ x.sem \in {"pstrict", "plax", "plossy", "praw"}))
                 \/ ("value" \in Checks /\ x.ok /\ Want(x.sem) /\ Has(x, "v") /\ Has(x.v, "t") /\ x.v.t # "nodump"
                       /\ ~ValMatches(SpecVal(x.sem), x.v))
                 \/ ("errpos" \in Checks /\ ~x.ok /\ ~x.panic /\ Has(x, "err") /\ ~ErrOk(Full(r, x), x.err))
  IN {ep \in DOMAIN r.res : Bad(ep)}

Init == l = 1
Next == /\ l <= Len(Rec)
        /\ DocChecks(Rec[l]) = {}
        /\ l' = l + 1
Spec == Init /\ [][Next]_vars

\* acceptance: every line consumed; otherwise print the first unexplained line and why
TraceAccepted ==
  LET d == TLCGet("stats").diameter IN
  IF d = Len(Rec) + 1 THEN PrintT(<<"TRACE-OK", Len(Rec)>>)
  ELSE /\ PrintT(<<"TRACE-REJECT", d, ToJson(DocChecks(Rec[d]))>>)
       /\ FALSE
=============================================================================
