-------------------------- MODULE Trace_JsonText --------------------------
(* Trace validation (I->S) for JsonText: each recorded event is one document fed to
   every entry point of the implementation; TLC evaluates the byte-level machine on
   the recorded bytes and checks verdicts (C02), denoted values (C03), error
   positions (C20) and the absence of panics (C01).                            *)
EXTENDS JsonText, Errors, Json, IOUtils
Rec == ndJsonDeserialize(IOEnv.TRACE)
CONSTANT Checks      \* subset of {"verdict", "value", "errpos", "panic"}: which clauses this run decides
VARIABLE l
vars == <<l>>

Has(r, f) == f \in DOMAIN r

ZeroOr(ds) == IF ds = <<>> THEN <<0>> ELSE ds
NumMatches(lit, d) ==
  IF d.k = "raw" THEN d.raw = lit
  ELSE /\ d.k = Classify(lit)
       /\ d.k \in {"u64", "i64"} => (d.d = ZeroOr(StripZ(Scan(lit).id)) /\ d.neg = Scan(lit).neg)
       /\ d.k = "f64" => FloatMatches(lit, d)

RECURSIVE ValMatches(_, _)
ValMatches(v, d) ==
  /\ d.t = v.t
  /\ CASE v.t = "null" -> TRUE
       [] v.t = "bool" -> d.b = v.b
       [] v.t = "str"  -> d.s = v.s
       [] v.t = "num"  -> NumMatches(v.lit, d)
       [] v.t = "arr"  -> Len(d.e) = Len(v.e) /\ \A i \in 1..Len(v.e) : ValMatches(v.e[i], d.e[i])
       [] v.t = "obj"  -> Len(d.m) = Len(v.m)
                          /\ \A i \in 1..Len(v.m) : d.m[i][1] = v.m[i][1].s /\ ValMatches(v.m[i][2], d.m[i][2])
       [] OTHER -> FALSE

\* error position rules (C20): offset within the input actually given to the entry point,
\* line/column exactly those of the offset, displayable, never a lookup category
ErrOk(full, e) ==
  /\ e.off <= Len(full)
  /\ e.disp_ok
  /\ ~e.nf
  /\ <<e.line, e.col>> = LineCol(full, e.off)

Full(r, x) == (IF Has(x, "pre") THEN x.pre ELSE <<>>) \o r.b \o (IF Has(x, "post") THEN x.post ELSE <<>>)

DocChecks(r) ==
  LET bs == BRun(r.b, FALSE)  bl == BRun(r.b, TRUE)
      ps == PRun(r.b, FALSE)  pl == PRun(r.b, TRUE)
      strictOk == bs.s.m = "end" /\ ~bs.inf
      laxOk    == bl.s.m = "end"
      pStrict  == ps.root # NoVal /\ ~ps.inf
      pLax     == pl.root # NoVal
      Want(sem) == CASE sem = "strict"  -> strictOk
                     [] sem = "lax"     -> laxOk
                     [] sem = "pstrict" -> pStrict
                     [] sem = "plax"    -> pLax
                     [] sem = "plossy"  -> pLax /\ ~pl.inf
                     [] sem = "praw"    -> ps.root # NoVal
                     [] sem = "kind:str"  -> strictOk /\ bs.root.t = "str"
                     [] sem = "kind:num"  -> strictOk /\ bs.root.t = "num"
                     [] sem = "kind:bool" -> strictOk /\ bs.root.t = "bool"
                     [] sem = "kind:null" -> strictOk /\ bs.root.t = "null"
      SpecVal(sem) == CASE sem \in {"pstrict", "plax", "praw"} -> ps.root
                        [] sem = "plossy" -> pl.root
                        [] OTHER -> bs.root
      amb == PrefixAmbiguous(r.b, TRUE)
      Bad(ep) == LET x == r.res[ep] IN
                 \/ ("panic" \in Checks /\ x.panic)
                 \/ ("verdict" \in Checks /\ ~x.panic /\ x.ok # Want(x.sem) /\ ~(amb /\ x.sem \in {"pstrict", "plax", "plossy", "praw"}))
                 \/ ("value" \in Checks /\ x.ok /\ Want(x.sem) /\ Has(x, "v") /\ Has(x.v, "t") /\ x.v.t # "nodump"
                       /\ ~ValMatches(SpecVal(x.sem), x.v))
                 \/ ("errpos" \in Checks /\ ~x.ok /\ ~x.panic /\ Has(x, "err") /\ ~ErrOk(Full(r, x), x.err))
  IN {ep \in DOMAIN r.res : Bad(ep)}

Init == l = 1
Next == /\ l <= Len(Rec)
        /\ DocChecks(Rec[l]) = {}
        /\ l' = l + 1
Spec == Init /\ [][Next]_vars

\* acceptance: every line consumed; otherwise print the first unexplained line and why
TraceAccepted ==
  LET d == TLCGet("stats").diameter IN
  IF d = Len(Rec) + 1 THEN PrintT(<<"TRACE-OK", Len(Rec)>>)
  ELSE /\ PrintT(<<"TRACE-REJECT", d, ToJson(DocChecks(Rec[d]))>>)
       /\ FALSE
=============================================================================
