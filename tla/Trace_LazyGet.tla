--------------------------- MODULE Trace_LazyGet ---------------------------
(* Trace validation for get / get_unchecked / carriers / DOM-lazy-owned pointer (C10),
   get_many (C11), lazy iterators and streams (C12, C20 latch) and the "never hand out a
   malformed fragment" clause (C14).                                                   *)
EXTENDS LazyGet, Conform, Json, IOUtils
Rec == ndJsonDeserialize(IOEnv.TRACE)
CONSTANT Checks      \* subset of {"c10", "c11", "c12", "c14", "latch", "panic", "stream"}
VARIABLE l
vars == <<l>>

\* the returned raw text is the source span: by offsets when the result points into the input buffer,
\* by content when the carrier made a private copy (small Bytes / FastStr inputs are inlined)
SpanEqB(x, v, b) == IF x.a >= 0 THEN x.a = v.a /\ x.z = v.z ELSE x.raw = SubSeq(b, v.a + 1, v.z)
\* a string result decodes to the code points the value denotes
StrViewOk(x, v) == ("sv" \in DOMAIN x /\ v.t = "str") => (x.sv.some /\ x.sv.s = v.s)
CheckedOkB(b, path, x) ==
  IF x.a >= 0 THEN CheckedGetOk(b, path, x.a, x.z) /\ x.raw = SubSeq(b, x.a + 1, x.z)
  ELSE \E a \in 0..(Len(b) - Len(x.raw)) : SubSeq(b, a + 1, a + Len(x.raw)) = x.raw /\ CheckedGetOk(b, path, a, a + Len(x.raw))
RECURSIVE HasDups(_)
HasDups(v) == CASE v.t = "arr" -> \E i \in 1..Len(v.e) : HasDups(v.e[i])
                [] v.t = "obj" -> \/ \E i, j \in 1..Len(v.m) : i # j /\ v.m[i][1].s = v.m[j][1].s
                                  \/ \E i \in 1..Len(v.m) : HasDups(v.m[i][2])
                [] OTHER -> FALSE

GetBad(r) ==
  LET root == Root(r.b)
      exp  == IF root = NoVal THEN Fail("syntax") ELSE Lookup(root, r.path)
      wholeLax == AcceptsLax(r.b)
      wholeStrict == AcceptsStrict(r.b)
      amb  == PrefixAmbiguous(r.b, TRUE) \/ PRun(r.b, TRUE).badsur   \* keys are decoded: unpaired surrogates are out of scope
      Bad(ep) ==
        LET x == r.res[ep] IN
        \/ ("panic" \in Checks /\ x.panic)
        \/ /\ ~x.panic /\ x.kind = "span"
           /\ IF x.unchecked
              THEN "c10" \in Checks /\ wholeLax /\ ~amb
                   /\ (x.ok # exp.ok \/ (x.ok /\ ~SpanEqB(x, exp.v, r.b)) \/ (x.ok /\ ~StrViewOk(x, exp.v)))
              ELSE \/ ("c14" \in Checks /\ x.ok /\ ~(x.utf8 /\ CheckedOkB(r.b, r.path, x)))
                   \/ /\ "c10" \in Checks /\ root # NoVal /\ ~amb
                      /\ \/ x.ok # exp.ok
                         \/ (x.ok /\ ~SpanEqB(x, exp.v, r.b))
                         \/ (x.ok /\ ~StrViewOk(x, exp.v))
                         \* the error category is judged only when the first value also decodes (strict machine)
                         \/ (~x.ok /\ PrefixOk(r.b, FALSE) /\ (x.nf # (exp.why = "notfound")))
                         \/ (~x.ok /\ PrefixOk(r.b, FALSE) /\ exp.why = "mismatch" /\ ~x.tm)
        \/ /\ ~x.panic /\ x.kind = "value" /\ "c10" \in Checks /\ wholeStrict
           /\ (x.ok # exp.ok \/ (x.ok /\ ~ValMatches(exp.v, x.v)))
        \* (documents with an unpaired surrogate escape anywhere are not well-formed: an owned lazy value decodes every member name of an object it walks through)
        \/ /\ ~x.panic /\ x.kind = "raw" /\ "c10" \in Checks /\ wholeLax /\ ~BRun(r.b, TRUE).badsur
           /\ (x.ok # exp.ok \/ (x.ok /\ x.raw # SubSeq(r.b, exp.v.a + 1, exp.v.z)))
  IN {ep \in DOMAIN r.res : Bad(ep)}

ManyBad(r) ==
  LET root == Root(r.b)
      wholeLax == AcceptsLax(r.b)
      n == Len(r.paths)
      L(i) == Lookup(root, r.paths[i])
      Bad(ep) ==
        LET x == r.res[ep] IN
        \/ ("panic" \in Checks /\ x.panic)
        \/ /\ ~x.panic /\ "c14" \in Checks /\ ~x.unchecked /\ x.ok
           /\ \E i \in 1..Len(x.slots) : x.slots[i].some /\ i <= n
                 /\ ~CheckedOkB(r.b, r.paths[i], x.slots[i])
        \/ /\ ~x.panic /\ "c11" \in Checks /\ root # NoVal /\ ~HasDups(root) /\ (x.unchecked => wholeLax)
           /\ ~PrefixAmbiguous(r.b, TRUE) /\ ~PRun(r.b, TRUE).badsur
           /\ \/ (x.ok /\ Len(x.slots) # n)
              \/ (x.ok /\ \E i \in 1..n : x.slots[i].some /\ ~(L(i).ok /\ SpanEqB(x.slots[i], L(i).v, r.b)))
              \* a string slot decodes to the code points the value denotes (the escape status travels with the slot)
              \/ (x.ok /\ \E i \in 1..n : x.slots[i].some /\ L(i).ok /\ ~StrViewOk(x.slots[i], L(i).v))
              \/ (x.ok /\ \E i \in 1..n : ~x.slots[i].some /\ MissKind(root, r.paths[i]) # "nokey")
              \/ ((\A i \in 1..n : L(i).ok) /\ ~x.ok)
  IN {ep \in DOMAIN r.res : Bad(ep)}

\* ---- iterators ----
FrameMembers(f) == IF f.t = "arr" THEN [i \in 1..Len(f.e) |-> [a |-> f.e[i].a, z |-> f.e[i].z, num |-> f.e[i].t = "num"]]
                   ELSE [i \in 1..Len(f.m) |-> [a |-> f.m[i][2].a, z |-> f.m[i][2].z, key |-> f.m[i][1].s, num |-> f.m[i][2].t = "num"]]
ItemEq(it, m, isobj, b) == SpanEqB(it, m, b) /\ (isobj => it.key = m.key)
ItemsEq(items, ms, isobj, b) == Len(items) = Len(ms) /\ \A i \in 1..Len(ms) : ItemEq(items[i], ms[i], isobj, b)
IsDelim(b) == Class(b) \in {"sp", "wsc", ",", "]", "}"}

\* sequence of documents a stream yields before its first error (strict machine, prefix semantics)
RECURSIVE StreamDocs(_, _)
StreamDocs(bytes, fuel) ==
  IF fuel = 0 THEN <<>> ELSE
  LET r == PRun(bytes, FALSE) IN
  IF r.root = NoVal \/ r.inf THEN <<>>
  ELSE <<r.root>> \o StreamDocs(SubSeq(bytes, r.root.z + 1, Len(bytes)), fuel - 1)
RECURSIVE StreamAmb(_, _)
StreamAmb(bytes, fuel) ==
  IF fuel = 0 THEN FALSE ELSE
  LET r == PRun(bytes, FALSE) IN
  IF r.root = NoVal \/ r.inf THEN FALSE
  ELSE PrefixAmbiguous(bytes, FALSE) \/ StreamAmb(SubSeq(bytes, r.root.z + 1, Len(bytes)), fuel - 1)

IterBad(r) ==
  LET root == Root(r.b)
      wholeLax == AcceptsLax(r.b)
      tf == TopFrame(r.b)
      utf8ok == Utf8Valid(r.b)
      Bad(ep) ==
        LET x == r.res[ep]
            isobj == x.kind = "obj"
            want == IF isobj THEN "obj" ELSE "arr"
            good == root # NoVal /\ root.t = want
            frame == IF good THEN <<>>
                     ELSE IF root # NoVal \/ tf.none \/ tf.f.t # want THEN <<>> ELSE FrameMembers(tf.f)
            n == Len(frame)
            \* a trailing number member directly followed by a non-delimiter may or may not be yielded
            lastAmb == /\ n > 0 /\ frame[n].num /\ frame[n].z < Len(r.b) /\ ~IsDelim(r.b[frame[n].z + 1])
        IN
        \/ ("panic" \in Checks /\ x.panic)
        \/ /\ ~x.panic /\ x.kind = "stream"
           /\ \/ ("latch" \in Checks /\ x.after # 0)
              \/ /\ "stream" \in Checks /\ ~StreamAmb(r.b, 50)
                 /\ LET ds == StreamDocs(r.b, 50) IN
                    \/ Len(x.docs) # Len(ds)
                    \/ \E i \in 1..Len(ds) : ~ValMatches(ds[i], x.docs[i])
                    \/ ~x.haserr
        \* Utf8Gate: an iterator over a byte carrier validates the whole input as UTF-8 before its first
        \* item (a deliberate deviation from "leading members first", modelled as its own step)
        \/ /\ ~x.panic /\ x.kind \in {"arr", "obj"} /\ ~utf8ok /\ ~x.unchecked /\ "c12" \in Checks
           /\ ~(x.items = <<>> /\ x.haserr)
        \/ /\ ~x.panic /\ x.kind \in {"arr", "obj"} /\ (utf8ok \/ x.unchecked)
           /\ ~("noparse" \in DOMAIN x) /\ (("present" \in DOMAIN x) => x.present)
           /\ \/ ("latch" \in Checks /\ x.after # 0)
              \/ /\ "c14" \in Checks /\ ~x.unchecked
                 /\ \E i \in 1..Len(x.items) : ~(IF x.items[i].a >= 0 THEN ValueOk(r.b, x.items[i].a, x.items[i].z)
                                                  ELSE ValueOk(x.items[i].raw, 0, Len(x.items[i].raw)))
              \/ /\ "c12" \in Checks /\ (x.unchecked => wholeLax) /\ ~FoldLeft(BStepP, BInit(TRUE), r.b).badsur
                 /\ IF good THEN ~ItemsEq(x.items, Members(root), isobj, r.b) \/ x.haserr
                    ELSE ~x.unchecked /\
                         \/ ~x.haserr
                         \/ ~(\/ ItemsEq(x.items, frame, isobj, r.b)
                              \/ (lastAmb /\ ItemsEq(x.items, SubSeq(frame, 1, n - 1), isobj, r.b)))
  IN {ep \in DOMAIN r.res : Bad(ep)}

SchemaBad(r) ==
  LET sroot == BRun(r.schema, FALSE)
      droot == BRun(r.b, FALSE)
      judged == /\ sroot.s.m = "end" /\ ~sroot.inf /\ droot.s.m = "end" /\ ~droot.inf
                /\ ~HasDups(droot.root) /\ ~HasDups(sroot.root)
                /\ sroot.root.t = "obj"                      \* "The schema must be an object"
      exp == Merge(sroot.root, droot.root)
      Bad(ep) == LET x == r.res[ep] IN
                 \/ ("panic" \in Checks /\ x.panic)
                 \/ ("c11" \in Checks /\ ~x.panic /\ judged /\ (~x.ok \/ ~ValMatchesU(exp, x.v)))
  IN {ep \in DOMAIN r.res : Bad(ep)}

EventBad(r) == CASE r.ev = "get" -> GetBad(r) [] r.ev = "schema" -> SchemaBad(r) [] r.ev = "many" -> ManyBad(r) [] r.ev = "iter" -> IterBad(r) [] OTHER -> {"unknown-event"}

Init == l = 1
Next == /\ l <= Len(Rec) /\ EventBad(Rec[l]) = {} /\ l' = l + 1
Spec == Init /\ [][Next]_vars
TraceAccepted ==
  LET d == TLCGet("stats").diameter IN
  IF d = Len(Rec) + 1 THEN PrintT(<<"TRACE-OK", Len(Rec)>>)
  ELSE /\ PrintT(<<"TRACE-REJECT", d, ToJson(EventBad(Rec[d]))>>)
       /\ FALSE
=============================================================================
