------------------------------ MODULE Conform ------------------------------
(* Operators shared by the trace specifications: how an implementation dump relates to a
   specification value (C03), and the error-position rules (C20).                      *)
EXTENDS JsonText, Errors, FiniteSets

Has(r, f) == f \in DOMAIN r

ZeroOr(ds) == IF ds = <<>> THEN <<0>> ELSE ds
NumMatches(lit, d) ==
  IF d.k = "raw" THEN d.raw = lit
  ELSE IF d.k = "big" THEN      \* 128-bit integers of the serialisation model: exact digits
       LET sc == Scan(lit) IN IsPlainInt(sc) /\ d.d = ZeroOr(StripZ(sc.id)) /\ d.neg = sc.neg
  ELSE /\ d.k = Classify(lit)
       /\ d.k \in {"u64", "i64"} => (d.d = ZeroOr(StripZ(Scan(lit).id)) /\ d.neg = Scan(lit).neg)
       /\ d.k = "f64" => FloatMatches(lit, d)

RECURSIVE ValMatches(_, _)
ValMatches(v, d) ==
  /\ d.t = v.t
  /\ CASE v.t = "null" -> TRUE
       [] v.t = "bool" -> d.b = v.b
       [] v.t = "str"  -> d.s = v.s
       [] v.t = "num"  -> NumMatches(v.lit, d)
       [] v.t = "arr"  -> Len(d.e) = Len(v.e) /\ \A i \in 1..Len(v.e) : ValMatches(v.e[i], d.e[i])
       [] v.t = "obj"  -> Len(d.m) = Len(v.m)
                          /\ \A i \in 1..Len(v.m) : d.m[i][1] = v.m[i][1].s /\ ValMatches(v.m[i][2], d.m[i][2])
       [] OTHER -> FALSE

\* the same, but object members may come in any order (values that went through an owned hash map)
RECURSIVE ValMatchesU(_, _)
ValMatchesU(v, d) ==
  /\ d.t = v.t
  /\ CASE v.t = "null" -> TRUE
       [] v.t = "bool" -> d.b = v.b
       [] v.t = "str"  -> d.s = v.s
       [] v.t = "num"  -> NumMatches(v.lit, d)
       [] v.t = "arr"  -> Len(d.e) = Len(v.e) /\ \A i \in 1..Len(v.e) : ValMatchesU(v.e[i], d.e[i])
       [] v.t = "obj"  -> Len(d.m) = Len(v.m)
                          /\ \A i \in 1..Len(v.m) : \E j \in 1..Len(d.m) : d.m[j][1] = v.m[i][1].s /\ ValMatchesU(v.m[i][2], d.m[j][2])
       [] OTHER -> FALSE

\* ---- sort_keys: every object's members in ascending key order, stably (dump format) ----
LexLeq(a, b) ==       \* code-point sequences, lexicographic (= byte order of their UTF-8)
  LET n == IF Len(a) < Len(b) THEN Len(a) ELSE Len(b)
      diff == {i \in 1..n : a[i] # b[i]}
  IN IF diff = {} THEN Len(a) <= Len(b)
     ELSE LET i == CHOOSE i \in diff : \A j \in diff : i <= j IN a[i] < b[i]
\* stable insertion sort of a sequence of <<key, value>> pairs
InsertStable(sorted, p) ==
  LET k == Cardinality({i \in 1..Len(sorted) : LexLeq(sorted[i][1], p[1])})   \* sorted is sorted: these form a prefix
  IN SubSeq(sorted, 1, k) \o <<p>> \o SubSeq(sorted, k + 1, Len(sorted))
RECURSIVE SortDump(_)
SortDump(d) ==
  CASE d.t = "arr" -> [d EXCEPT !.e = [i \in 1..Len(d.e) |-> SortDump(d.e[i])]]
    [] d.t = "obj" -> [d EXCEPT !.m = FoldLeft(InsertStable, <<>>, [i \in 1..Len(d.m) |-> <<d.m[i][1], SortDump(d.m[i][2])>>])]
    [] OTHER -> d

\* error position rules (C20): offset within the input actually given to the entry point,
\* line/column exactly those of the offset, displayable, never a lookup category
ErrOk(full, e) ==
  /\ e.off <= Len(full)
  /\ e.disp_ok
  /\ ~e.nf
  /\ <<e.line, e.col>> = LineCol(full, e.off)

=============================================================================
