----------------------------- MODULE MC_Skipper -----------------------------
(* Exhaustive small scope: every string over {left, right, quote, backslash, letter} up to MaxLen, block size B:
   the bit-parallel formulation (with its carried state) skips exactly what the scalar reference skips; the escape
   trick equals the direct definition for every backslash pattern of B bits and both carries.                     *)
EXTENDS Skipper, TLC
CONSTANTS B, MaxLen
Alphabet == {91, 93, 34, 92, 97}
VARIABLE w
Init == w = <<>>
Next == Len(w) < MaxLen /\ \E c \in Alphabet : w' = Append(w, c) /\ BackslashOnlyInStrings(RefInit, w')
\* a word of length < B is also read as the bit pattern of a block (1 = backslash) for the escape-trick law
SkipAgrees == SkipBlk(w, B, 91, 93) = SkipRef(w, B, 91, 93)
\* state agreement block by block (not only the final answer): after every whole block that did not close
StateAgrees == \A k \in 1..(Len(w) \div B) :
                  LET pre == SubSeq(w, 1, k * B) IN
                  SkipRef(pre, B, 91, 93) = 0 =>
                     FoldLeft(LAMBDA st, j : BlkStep(st, Blocks(pre, B)[j], 91, 93).st, BlkInit, [j \in 1..k |-> j])
                   = FoldLeft(LAMBDA st, j : RefStepBlk(st, Blocks(pre, B)[j], 91, 93).st, BlkInit, [j \in 1..k |-> j])
EscapeTrick == Len(w) = MaxLen => LET bits == [i \in 1..B |-> IF w[((i - 1) % Len(w)) + 1] = 92 THEN 1 ELSE 0] IN
                 \A pe \in {0, 1} : EscapedTrick(pe, bits) = EscapedDirect(pe, bits)
\* all 2^B backslash patterns (independent of w): checked once in the initial state
EscapeTrickAll == w = <<>> => \A S \in SUBSET (1..B) : \A pe \in {0, 1} :
                    LET bits == [i \in 1..B |-> IF i \in S THEN 1 ELSE 0] IN EscapedTrick(pe, bits) = EscapedDirect(pe, bits)
=============================================================================
