//! Conformance suite bound to LazyGet.tla: get / get_unchecked / carriers / DOM, lazy and owned-lazy
//! pointer, get_many, get_by_schema and the lazy iterators.  I->S: every call is logged with its
//! arguments and results (spans as byte offsets within the input); Trace_LazyGet.tla recomputes
//! Lookup / CheckedGetOk / Members on the recorded bytes.
use crate::dump::{bytes_j, cps, dump_value};
use crate::jt::{err_j, Gen};
use crate::util::*;
use serde_json::{json, Value as J};
use sonic_rs::{JsonValueTrait, LazyValue, OwnedLazyValue, PointerNode, PointerTree, Value};

#[derive(Clone, Debug)]
pub enum PE { Key(String), Idx(usize) }
pub fn path_j(p: &[PE]) -> J {
    J::Array(p.iter().map(|e| match e { PE::Key(s) => json!({"k":"key","s":cps(s)}), PE::Idx(i) => json!({"k":"idx","i":i}) }).collect())
}
pub fn to_ptr(p: &[PE]) -> Vec<PointerNode> {
    p.iter().map(|e| match e { PE::Key(s) => PointerNode::Key(faststr::FastStr::new(s.as_str())), PE::Idx(i) => PointerNode::Index(*i) }).collect()
}

fn span(base: &[u8], raw: &[u8]) -> (i64, i64) {
    let (b0, r0) = (base.as_ptr() as usize, raw.as_ptr() as usize);
    if r0 < b0 || r0 + raw.len() > b0 + base.len() { return (-1, -1); }
    ((r0 - b0) as i64, (r0 - b0 + raw.len()) as i64)
}
fn lv_res(base: &[u8], r: Result<LazyValue, sonic_rs::Error>, unchecked: bool) -> J {
    match r {
        Ok(lv) => {
            let raw = lv.as_raw_str().as_bytes();
            let (a, z) = span(base, raw);
            // decoded view of a string result (the escape status captured at skip time decides how as_str decodes)
            let sv = if lv.is_str() { match lv.as_str() { Some(s) => json!({"some":true,"s":cps(s)}), None => json!({"some":false}) } } else { json!({"some":false,"notstr":true}) };
            json!({"ok":true,"a":a,"z":z,"raw":bytes_j(raw),"sv":sv,"utf8":std::str::from_utf8(raw).is_ok(),"unchecked":unchecked,"kind":"span","panic":false})
        }
        Err(e) => json!({"ok":false,"err":err_j(&e),"nf":e.is_not_found(),"tm":e.is_unmatched_type(),"unchecked":unchecked,"kind":"span","panic":false}),
    }
}
fn guard(f: impl FnOnce() -> J, unchecked: bool) -> J {
    match catch(f) { Ok(j) => j, Err(p) => json!({"ok":false,"panic":true,"msg":p,"unchecked":unchecked,"kind":"span"}) }
}

/// all single-path entry points on one (document, path)
pub fn get_event(bytes: &[u8], path: &[PE], run_unchecked: bool) -> J {
    let ptr = to_ptr(path);
    let utf8 = std::str::from_utf8(bytes).is_ok();
    let mut res = serde_json::Map::new();
    res.insert("get_slice".into(), guard(|| lv_res(bytes, sonic_rs::get(bytes, &ptr), false), false));
    res.insert("get_from_slice".into(), guard(|| lv_res(bytes, sonic_rs::get_from_slice(bytes, &ptr), false), false));
    let b = bytes::Bytes::copy_from_slice(bytes);
    res.insert("get_from_bytes".into(), guard(|| lv_res(&b, sonic_rs::get_from_bytes(&b, &ptr), false), false));
    res.insert("get_bytes".into(), guard(|| lv_res(&b, sonic_rs::get(&b, &ptr), false), false));
    if utf8 {
        let s = std::str::from_utf8(bytes).unwrap();
        res.insert("get_from_str".into(), guard(|| lv_res(bytes, sonic_rs::get_from_str(s, &ptr), false), false));
        let fs = faststr::FastStr::new(s);
        res.insert("get_from_faststr".into(), guard(|| lv_res(fs.as_bytes(), sonic_rs::get_from_faststr(&fs, &ptr), false), false));
        let st = s.to_string();
        res.insert("get_string".into(), guard(|| lv_res(st.as_bytes(), sonic_rs::get(&st, &ptr), false), false));
    }
    if run_unchecked && utf8 {
        // the unchecked variants' contract: well-formed, valid UTF-8 input (the trace spec ignores them otherwise)
        let s = std::str::from_utf8(bytes).unwrap();
        unsafe {
            res.insert("get_unchecked_slice".into(), guard(|| lv_res(bytes, sonic_rs::get_unchecked(bytes, &ptr), true), true));
            res.insert("get_from_str_unchecked".into(), guard(|| lv_res(bytes, sonic_rs::get_from_str_unchecked(s, &ptr), true), true));
            res.insert("get_from_slice_unchecked".into(), guard(|| lv_res(bytes, sonic_rs::get_from_slice_unchecked(bytes, &ptr), true), true));
            res.insert("get_from_bytes_unchecked".into(), guard(|| lv_res(&b, sonic_rs::get_from_bytes_unchecked(&b, &ptr), true), true));
            let fs = faststr::FastStr::new(s);
            res.insert("get_from_faststr_unchecked".into(), guard(|| lv_res(fs.as_bytes(), sonic_rs::get_from_faststr_unchecked(&fs, &ptr), true), true));
        }
    }
    // DOM / lazy / owned-lazy navigation (whole document must parse)
    res.insert("dom_pointer".into(), guard(|| match sonic_rs::from_slice::<Value>(bytes) {
        Ok(v) => match v.pointer(&ptr) {
            Some(x) => json!({"ok":true,"kind":"value","v":dump_value(x).unwrap_or_else(|e| json!({"t":"inconsistent","why":e})),"panic":false}),
            None => json!({"ok":false,"kind":"value","panic":false}) },
        Err(_) => json!({"ok":false,"kind":"noparse","panic":false}) }, false));
    res.insert("dom_get_chain".into(), guard(|| match sonic_rs::from_slice::<Value>(bytes) {
        Ok(v) => {
            let mut cur: Option<&Value> = Some(&v);
            for e in path { cur = match (cur, e) { (Some(c), PE::Key(k)) => c.get(k.as_str()), (Some(c), PE::Idx(i)) => c.get(*i), _ => None }; }
            match cur { Some(x) => json!({"ok":true,"kind":"value","v":dump_value(x).unwrap_or_else(|e| json!({"t":"inconsistent","why":e})),"panic":false}),
                        None => json!({"ok":false,"kind":"value","panic":false}) } }
        Err(_) => json!({"ok":false,"kind":"noparse","panic":false}) }, false));
    res.insert("lazy_pointer".into(), guard(|| match sonic_rs::from_slice::<LazyValue>(bytes) {
        Ok(v) => match v.pointer(&ptr) {
            Some(x) => { let (a, z) = span(bytes, x.as_raw_str().as_bytes()); json!({"ok":true,"kind":"span","a":a,"z":z,"raw":bytes_j(x.as_raw_str().as_bytes()),"utf8":true,"unchecked":true,"whole":true,"panic":false}) }
            None => json!({"ok":false,"kind":"span","unchecked":true,"whole":true,"panic":false}) },
        Err(_) => json!({"ok":false,"kind":"noparse","panic":false}) }, false));
    fn lazy_chain(base: &[u8], cur: &LazyValue, path: &[PE]) -> J {
        if path.is_empty() {
            let (a, z) = span(base, cur.as_raw_str().as_bytes());
            return json!({"ok":true,"kind":"span","a":a,"z":z,"raw":bytes_j(cur.as_raw_str().as_bytes()),"utf8":true,"unchecked":true,"whole":true,"panic":false});
        }
        let next = match &path[0] { PE::Key(k) => cur.get(k.as_str()), PE::Idx(i) => cur.get(*i) };
        match next { Some(n) => lazy_chain(base, &n, &path[1..]), None => json!({"ok":false,"kind":"span","unchecked":true,"whole":true,"panic":false}) }
    }
    res.insert("lazy_get_chain".into(), guard(|| match sonic_rs::from_slice::<LazyValue>(bytes) {
        Ok(v) => lazy_chain(bytes, &v, path),
        Err(_) => json!({"ok":false,"kind":"noparse","panic":false}) }, false));
    res.insert("owned_pointer".into(), guard(|| match sonic_rs::from_slice::<OwnedLazyValue>(bytes) {
        Ok(v) => match v.pointer(&ptr) {
            Some(x) => json!({"ok":true,"kind":"raw","raw":bytes_j(sonic_rs::to_string(x).unwrap_or_default().as_bytes()),"panic":false}),
            None => json!({"ok":false,"kind":"raw","panic":false}) },
        Err(_) => json!({"ok":false,"kind":"noparse","panic":false}) }, false));
    json!({"ev":"get","b":bytes_j(bytes),"path":path_j(path),"res":res})
}

pub fn many_event(bytes: &[u8], paths: &[Vec<PE>], run_unchecked: bool) -> J {
    let mut tree = PointerTree::new();
    for p in paths { tree.add_path(to_ptr(p).iter()); }
    let mut res = serde_json::Map::new();
    let slots = |base: &[u8], r: Result<Vec<Option<LazyValue>>, sonic_rs::Error>, unchecked: bool| -> J {
        match r {
            Ok(v) => json!({"ok":true,"unchecked":unchecked,"panic":false,"slots": v.iter().map(|o| match o {
                Some(lv) => { let (a, z) = span(base, lv.as_raw_str().as_bytes());
                    let sv = if lv.is_str() { match lv.as_str() { Some(s) => json!({"some":true,"s":cps(s)}), None => json!({"some":false}) } } else { json!({"some":false,"notstr":true}) };
                    json!({"some":true,"a":a,"z":z,"raw":bytes_j(lv.as_raw_str().as_bytes()),"sv":sv}) }
                None => json!({"some":false}) }).collect::<Vec<_>>()}),
            Err(e) => json!({"ok":false,"unchecked":unchecked,"panic":false,"err":err_j(&e)}),
        }
    };
    res.insert("get_many_slice".into(), guard(|| slots(bytes, sonic_rs::get_many(bytes, &tree), false), false));
    let b = bytes::Bytes::copy_from_slice(bytes);
    res.insert("get_many_bytes".into(), guard(|| slots(&b, sonic_rs::get_many(&b, &tree), false), false));
    if run_unchecked { unsafe {
        res.insert("get_many_unchecked_slice".into(), guard(|| slots(bytes, sonic_rs::get_many_unchecked(bytes, &tree), true), true));
    } }
    json!({"ev":"many","b":bytes_j(bytes),"paths":J::Array(paths.iter().map(|p| path_j(p)).collect()),"res":res})
}

pub fn iter_event(bytes: &[u8], run_unchecked: bool) -> J {
    let mut res = serde_json::Map::new();
    fn drive_arr<'a>(base: &[u8], it: impl Iterator<Item = Result<LazyValue<'a>, sonic_rs::Error>>) -> J {
        let mut it = it;
        let mut items = Vec::new();
        let mut err = J::Bool(false);
        let mut after = 0;
        let mut n = 0;
        loop {
            n += 1;
            if n > 100000 { break; }
            match it.next() {
                Some(Ok(lv)) => { let (a, z) = span(base, lv.as_raw_str().as_bytes()); items.push(json!({"a":a,"z":z,"raw":bytes_j(lv.as_raw_str().as_bytes())})); }
                Some(Err(e)) => { err = err_j(&e); break; }
                None => break,
            }
        }
        for _ in 0..3 { if it.next().is_some() { after += 1; } }
        json!({"items":items,"haserr":!err.is_boolean(),"err":err,"after":after,"panic":false})
    }
    fn drive_obj<'a>(base: &[u8], it: impl Iterator<Item = Result<(std::borrow::Cow<'a, str>, LazyValue<'a>), sonic_rs::Error>>) -> J {
        let mut it = it;
        let mut items = Vec::new();
        let mut err = J::Bool(false);
        let mut after = 0;
        let mut n = 0;
        loop {
            n += 1;
            if n > 100000 { break; }
            match it.next() {
                Some(Ok((k, lv))) => { let (a, z) = span(base, lv.as_raw_str().as_bytes()); items.push(json!({"a":a,"z":z,"raw":bytes_j(lv.as_raw_str().as_bytes()),"key":cps(&k)})); }
                Some(Err(e)) => { err = err_j(&e); break; }
                None => break,
            }
        }
        for _ in 0..3 { if it.next().is_some() { after += 1; } }
        json!({"items":items,"haserr":!err.is_boolean(),"err":err,"after":after,"panic":false})
    }
    let pj = |p: String| json!({"panic":true,"msg":p,"items":[],"haserr":false,"err":false,"after":0});
    res.insert("array_iter_slice".into(), catch(|| drive_arr(bytes, sonic_rs::to_array_iter(bytes))).unwrap_or_else(pj).tap("arr", false));
    res.insert("object_iter_slice".into(), catch(|| drive_obj(bytes, sonic_rs::to_object_iter(bytes))).unwrap_or_else(pj).tap("obj", false));
    let b = bytes::Bytes::copy_from_slice(bytes);
    res.insert("array_iter_bytes".into(), catch(|| drive_arr(&b, sonic_rs::to_array_iter(&b))).unwrap_or_else(pj).tap("arr", false));
    res.insert("object_iter_bytes".into(), catch(|| drive_obj(&b, sonic_rs::to_object_iter(&b))).unwrap_or_else(pj).tap("obj", false));
    if let Ok(s) = std::str::from_utf8(bytes) {
        res.insert("array_iter_str".into(), catch(|| drive_arr(bytes, sonic_rs::to_array_iter(s))).unwrap_or_else(pj).tap("arr", false));
        res.insert("object_iter_str".into(), catch(|| drive_obj(bytes, sonic_rs::to_object_iter(s))).unwrap_or_else(pj).tap("obj", false));
        if run_unchecked { unsafe {
            res.insert("array_iter_unchecked".into(), catch(|| drive_arr(bytes, sonic_rs::to_array_iter_unchecked(s))).unwrap_or_else(pj).tap("arr", true));
            res.insert("object_iter_unchecked".into(), catch(|| drive_obj(bytes, sonic_rs::to_object_iter_unchecked(s))).unwrap_or_else(pj).tap("obj", true));
        } }
    }
    // LazyValue::into_*_iter on the whole document
    res.insert("lazy_into_array_iter".into(), catch(|| match sonic_rs::from_slice::<LazyValue>(bytes) {
        Ok(lv) => { let base_raw = lv.as_raw_str().as_bytes(); let (a0, _) = span(bytes, base_raw);
            match lv.clone().into_array_iter() { Some(it) => { let mut j = drive_arr(bytes, it); j["present"] = json!(true); j["a0"] = json!(a0); j } None => json!({"present":false,"items":[],"haserr":false,"err":false,"after":0,"panic":false}) } }
        Err(_) => json!({"noparse":true,"items":[],"haserr":false,"err":false,"after":0,"panic":false}) }).unwrap_or_else(pj).tap("arr", true));
    res.insert("lazy_into_object_iter".into(), catch(|| match sonic_rs::from_slice::<LazyValue>(bytes) {
        Ok(lv) => match lv.clone().into_object_iter() { Some(it) => { let mut j = drive_obj(bytes, it); j["present"] = json!(true); j } None => json!({"present":false,"items":[],"haserr":false,"err":false,"after":0,"panic":false}) },
        Err(_) => json!({"noparse":true,"items":[],"haserr":false,"err":false,"after":0,"panic":false}) }).unwrap_or_else(pj).tap("obj", true));
    // stream deserializer over the same bytes: values until the first error, then nothing
    res.insert("stream_value".into(), catch(|| {
        let mut st = sonic_rs::Deserializer::from_slice(bytes).into_stream::<Value>();
        let mut items = Vec::new();
        let mut err = J::Bool(false);
        let mut n = 0;
        loop { n += 1; if n > 100000 { break; }
            match st.next() { Some(Ok(v)) => items.push(dump_value(&v).unwrap_or_else(|e| json!({"t":"inconsistent","why":e}))), Some(Err(e)) => { err = err_j(&e); break; } None => break } }
        let mut after = 0;
        for _ in 0..3 { if st.next().is_some() { after += 1; } }
        json!({"docs":items,"haserr":!err.is_boolean(),"err":err,"after":after,"panic":false})
    }).unwrap_or_else(pj).tap("stream", false));
    json!({"ev":"iter","b":bytes_j(bytes),"res":res})
}
/// schema text derived from the implementation's own parse (generator heuristic): a subset of the document's keys with
/// defaults, absent keys, nested object schemas
fn make_schema(rng: &mut Rng, v: &Value, depth: usize, out: &mut Vec<u8>) {
    let defaults: &[&[u8]] = &[b"null", b"1", b"\"d\"", b"[]", b"{}", b"true", b"[1,2]"];
    match sonic_rs::JsonContainerTrait::as_object(v) {
        Some(o) if depth < 3 && !rng.chance(1, 8) => {
            out.push(b'{');
            let mut first = true;
            for (k, x) in o.iter() {
                if rng.chance(1, 2) { continue; }
                if !first { out.push(b','); } first = false;
                out.extend_from_slice(sonic_rs::to_string(k).unwrap().as_bytes());
                out.push(b':');
                if sonic_rs::JsonContainerTrait::as_object(x).is_some() && rng.chance(2, 3) { make_schema(rng, x, depth + 1, out); } else { out.extend_from_slice(*rng.pick(defaults)); }
            }
            for i in 0..rng.below(3) { if !first { out.push(b','); } first = false; out.extend_from_slice(format!("\"absent{}\":", i).as_bytes()); out.extend_from_slice(*rng.pick(defaults)); }
            out.push(b'}');
        }
        _ => out.extend_from_slice(*rng.pick(defaults)),
    }
}
/// (document, schema) built together: two levels of objects, nested schema objects that are often fully
/// satisfied by the data and followed by later members of the parent
pub fn schema_doc(rng: &mut Rng) -> (Vec<u8>, Vec<u8>) {
    let scalars: &[&[u8]] = &[b"1", b"\"v\"", b"true", b"null", b"[1,{\"a\":2}]", b"-2.5", b"{}", b"[]"];
    let defaults: &[&[u8]] = &[b"null", b"0", b"\"d\"", b"[]", b"{}"];
    let pool = ["a", "b", "c", "d", "e"];
    let mut doc = vec![b'{'];
    let mut sch = vec![b'{'];
    let (mut fd, mut fs) = (true, true);
    let nkeys = rng.range(1, 5);
    let mut used: Vec<&str> = Vec::new();
    for _ in 0..nkeys {
        let k = *rng.pick(&pool);
        if used.contains(&k) { continue; }
        used.push(k);
        if !fd { doc.push(b','); if rng.chance(1, 4) { doc.push(b' '); } } fd = false;
        doc.extend_from_slice(format!("\"{}\":", k).as_bytes());
        let in_schema = rng.chance(7, 10);
        if in_schema { if !fs { sch.push(b','); } fs = false; sch.extend_from_slice(format!("\"{}\":", k).as_bytes()); }
        if rng.chance(1, 2) {
            // nested object; sometimes the document's object is empty although the schema asks for members of it
            let doc_empty = rng.chance(1, 4);
            let mut inner_doc: Vec<u8> = Vec::new();
            std::mem::swap(&mut inner_doc, &mut doc);
            doc.push(b'{');
            if in_schema { sch.push(b'{'); }
            let full = rng.chance(1, 2);
            let (mut f2d, mut f2s) = (true, true);
            let mut used2: Vec<&str> = Vec::new();
            for _ in 0..rng.range(1, 3) {
                let k2 = *rng.pick(&pool);
                if used2.contains(&k2) { continue; }
                used2.push(k2);
                if !f2d { doc.push(b','); } f2d = false;
                doc.extend_from_slice(format!("\"{}\":", k2).as_bytes());
                doc.extend_from_slice(*rng.pick(scalars));
                if in_schema && (full || rng.chance(1, 2)) { if !f2s { sch.push(b','); } f2s = false; sch.extend_from_slice(format!("\"{}\":", k2).as_bytes()); sch.extend_from_slice(*rng.pick(defaults)); }
            }
            if in_schema && !full && rng.chance(1, 2) { if !f2s { sch.push(b','); } sch.extend_from_slice(b"\"zz\":7"); }
            doc.push(b'}');
            if doc_empty { doc = if rng.chance(1, 2) { b"{}".to_vec() } else { b"{ }".to_vec() }; }
            std::mem::swap(&mut inner_doc, &mut doc);
            doc.extend_from_slice(&inner_doc);
            if in_schema { sch.push(b'}'); }
        } else {
            doc.extend_from_slice(*rng.pick(scalars));
            if in_schema { sch.extend_from_slice(*rng.pick(defaults)); }
        }
    }
    if rng.chance(1, 3) { if !fs { sch.push(b','); } sch.extend_from_slice(b"\"absent\":[0]"); }
    doc.push(b'}');
    sch.push(b'}');
    // sometimes one level deeper, with members of the enclosing object after it
    if rng.chance(1, 3) {
        let k = *rng.pick(&pool);
        let doc2 = [format!("{{\"{}\":", k).as_bytes(), &doc[..], b",\"b2\":3,\"c2\":[4]}"].concat();
        let sch2 = [format!("{{\"{}\":", k).as_bytes(), &sch[..], b",\"b2\":2,\"c2\":null}"].concat();
        return (doc2, sch2);
    }
    (doc, sch)
}
pub fn schema_event(bytes: &[u8], schema: &[u8]) -> J {
    let mut res = serde_json::Map::new();
    let run = |carrier: u8| -> J {
        let sv: Value = match sonic_rs::from_slice(schema) { Ok(v) => v, Err(_) => return json!({"ok":false,"panic":false,"badschema":true}) };
        let r = if carrier == 0 { sonic_rs::get_by_schema(bytes, sv) } else { let b = bytes::Bytes::copy_from_slice(bytes); sonic_rs::get_by_schema(&b, sv) };
        match r { Ok(v) => json!({"ok":true,"panic":false,"v":dump_value(&v).unwrap_or_else(|e| json!({"t":"inconsistent","why":e}))}),
                  Err(e) => json!({"ok":false,"panic":false,"err":err_j(&e)}) }
    };
    res.insert("get_by_schema_slice".into(), catch(|| run(0)).unwrap_or_else(|p| json!({"ok":false,"panic":true,"msg":p})));
    res.insert("get_by_schema_bytes".into(), catch(|| run(1)).unwrap_or_else(|p| json!({"ok":false,"panic":true,"msg":p})));
    json!({"ev":"schema","b":bytes_j(bytes),"schema":bytes_j(schema),"res":res})
}

trait Tap { fn tap(self, kind: &str, unchecked: bool) -> J; }
impl Tap for J { fn tap(mut self, kind: &str, unchecked: bool) -> J { self["kind"] = json!(kind); self["unchecked"] = json!(unchecked); self } }

// ------------------------------------------------------------------------------------------
// generators

/// paths drawn from the implementation's own parse (generator heuristic only; expectations come from the spec)
fn random_path(rng: &mut Rng, v: &Value) -> Vec<PE> {
    let mut p = Vec::new();
    let mut cur = v;
    loop {
        if rng.chance(1, 4) { break; }
        if let Some(a) = sonic_rs::JsonContainerTrait::as_array(cur) {
            if a.is_empty() || rng.chance(1, 10) { p.push(PE::Idx(a.len() + rng.below(2))); break; }
            let i = rng.below(a.len());
            p.push(PE::Idx(i));
            cur = &a[i];
        } else if let Some(o) = sonic_rs::JsonContainerTrait::as_object(cur) {
            if o.is_empty() || rng.chance(1, 10) { p.push(PE::Key(rng.pick(&["zz", "", "k0", "a\"b"]).to_string())); break; }
            let i = rng.below(o.len());
            let (k, x) = o.iter().nth(i).unwrap();
            p.push(PE::Key(k.to_string()));
            cur = x;
        } else {
            if rng.chance(1, 3) { p.push(if rng.chance(1, 2) { PE::Idx(0) } else { PE::Key("k1".into()) }); }
            break;
        }
    }
    p
}
fn blind_path(rng: &mut Rng) -> Vec<PE> {
    (0..rng.below(4)).map(|_| if rng.chance(1, 2) { PE::Idx(rng.below(4)) } else { PE::Key(rng.pick(&["k0", "k1", "k2", "k3", "a", "b", ""]).to_string()) }).collect()
}

/// A member name longer than a vector block, with escapes, and one raw control byte (or none) somewhere in it: the name has to be
/// decoded (it is compared with the wanted key) by every checked lookup that walks over it
pub fn ctrl_name_doc(rng: &mut Rng) -> (Vec<u8>, Vec<PE>) {
    let len = rng.range(20, 90);
    let mut name: Vec<u8> = Vec::new();
    let bad_at = if rng.chance(3, 4) { Some(rng.below(len)) } else { None };
    for i in 0..len {
        if Some(i) == bad_at { name.push(*rng.pick(&[0x01u8, 0x09, 0x0a, 0x1f, 0x00])); continue; }
        match rng.below(12) { 0 => name.extend_from_slice(b"\\n"), 1 => name.extend_from_slice(b"\\\""), 2 => name.extend_from_slice(b"\\u0041"), _ => name.push(b'a' + rng.below(26) as u8) }
    }
    let tail = if rng.chance(1, 2) { " ".repeat(rng.below(70)) } else { String::new() };
    let doc = match rng.below(3) {
        0 => [&b"{\""[..], &name, b"\":1,\"b\":2}", tail.as_bytes()].concat(),
        1 => [&b"{\"a\":{\""[..], &name, b"\":[1]},\"b\":2}", tail.as_bytes()].concat(),
        _ => [&b"[{\""[..], &name, b"\":1},{\"b\":2}]", tail.as_bytes()].concat(),
    };
    let path = match doc[0] { b'[' => vec![PE::Idx(1), PE::Key("b".into())], _ => vec![PE::Key("b".into())] };
    (doc, path)
}

/// Documents that force the skippers across block edges: a member to be skipped whose strings contain
/// brackets, quotes and backslash runs, padded so that these land around offsets 30..33 / 62..65 of a block.
pub fn stress_doc(rng: &mut Rng) -> (Vec<u8>, Vec<PE>) {
    // the first tricky sequence starts at offset `pad` of the string content: around every 32/64-byte block edge
    let pad = if rng.chance(1, 5) { rng.below(200) } else { *rng.pick(&[28usize, 29, 30, 31, 32, 33, 34, 60, 61, 62, 63, 64, 65, 66, 93, 94, 95, 96, 97, 124, 125, 126, 127, 128, 129, 130, 190, 191, 192, 193]) };
    let mut s = Vec::new();
    for _ in 0..pad { s.push(*rng.pick(b"abcxyz 019")); }
    let tricky: &[&[u8]] = &[b"\\\"", b"\\\\", b"\\\\\\\"", b"]", b"}", b"{", b"[", b",", b":", b"\\n", b"\\u0041", b"\\\\\\\\", b"\\\"]", b"}\\\"{"];
    for _ in 0..rng.range(1, 3) { s.extend_from_slice(*rng.pick(tricky)); for _ in 0..rng.below(3) { s.push(b'q'); } }
    // short tails leave fewer than one SIMD block after the edge (scalar tail loops), long ones keep the SIMD loop going
    let tail_pad = if rng.chance(1, 2) { rng.below(6) } else { rng.below(70) };
    for _ in 0..tail_pad { s.push(b't'); }
    let inner: Vec<u8> = match rng.below(4) {
        0 => [&b"\""[..], &s, b"\""].concat(),
        1 => [&b"[\""[..], &s, b"\",1]"].concat(),
        2 => [&b"{\"s\":\""[..], &s, b"\"}"].concat(),
        _ => [&b"[[\""[..], &s, b"\"],{\"x\":\"]\"}]"].concat(),
    };
    let num = *rng.pick(&["1", "-12.5E3", "12.5e+3", "0.0", "123456789012345678901234567890", "true", "null", "\"v\\\"x\""]);
    let (doc, path) = match rng.below(3) {
        0 => ([&b"{\"a\":"[..], &inner, b",\"b\":", num.as_bytes(), b"}"].concat(), vec![PE::Key("b".into())]),
        1 => ([&b"["[..], &inner, b",", num.as_bytes(), b"]"].concat(), vec![PE::Idx(1)]),
        _ => ([&b"{\"k\":["[..], &inner, b",", &inner, b"],\"b\":{\"c\":", num.as_bytes(), b"}}"].concat(), vec![PE::Key("b".into()), PE::Key("c".into())]),
    };
    // optionally pad the tail so that SIMD loops (which need >= 32/64 remaining bytes) engage
    let mut doc = doc;
    if rng.chance(1, 3) { for _ in 0..rng.range(1, 70) { doc.push(b' '); } }
    (doc, path)
}

pub fn record(args: &[String]) -> i32 {
    let seed = arg_u64(args, "--seed", 1);
    let n = arg_u64(args, "--n", 1000);
    let out = arg(args, "--out").expect("--out");
    let shards = arg_u64(args, "--shards", 1);
    let mut inflight = Inflight::new(arg(args, "--inflight"));
    let mut rng = Rng::new(seed ^ 0x6c67);
    let mut outs: Vec<Out> = (0..shards).map(|i| Out::create(&format!("{out}.{i}.ndjson"))).collect();
    crate::jt::DUMP_ON.store(true, std::sync::atomic::Ordering::Relaxed);
    let mut counts = std::collections::HashMap::<&str, u64>::new();
    let mut panics = 0u64;
    for i in 0..n {
        let mut orig: Option<Vec<u8>> = None;      // the document a mutated one was made from (paths are drawn from it)
        let (doc, origin, spath) = match i % 5 {
            0 | 1 => { let mut g = Gen { rng: &mut rng }; (g.doc(), "gen", None) }
            2 if i % 15 == 2 => { let (d, p) = ctrl_name_doc(&mut rng); (d, "ctrl-name", Some(p)) }
            2 => { let mut g = Gen { rng: &mut rng }; let d = g.doc(); let m = g.mutate(&d); orig = Some(d); (m, "mut", None) }
            _ => { let (d, p) = stress_doc(&mut rng); if rng.chance(1, 6) { let mut g = Gen { rng: &mut rng }; let m = g.mutate(&d); orig = Some(d); (m, "stress-mut", Some(p)) } else { (d, "stress", Some(p)) } }
        };
        inflight.set(i, &doc);
        // is the document acceptable to the implementation's own validator? (decides only whether the
        // unchecked variants are *called*; whether their results are *judged* is decided by the spec)
        let wf = catch(|| sonic_rs::from_slice::<serde::de::IgnoredAny>(&doc).is_ok()).unwrap_or(false);
        let parsed = catch(|| sonic_rs::from_slice::<Value>(&doc).ok()).unwrap_or(None);
        // a mutated document that no longer parses: paths (and path sets) come from the document it was made from
        let parsed_or_orig = match (&parsed, &orig) { (None, Some(o)) => catch(|| sonic_rs::from_slice::<Value>(o).ok()).unwrap_or(None), _ => None };
        let parsed_paths = parsed.as_ref().or(parsed_or_orig.as_ref());
        let mut paths: Vec<Vec<PE>> = Vec::new();
        if let Some(p) = spath { paths.push(p); }
        for _ in 0..2 { paths.push(match parsed_paths { Some(v) if rng.chance(4, 5) => random_path(&mut rng, v), _ => blind_path(&mut rng) }); }
        let ev: J = if i % 15 == 7 {
            // several paths, one of them an index into an array whose elements after the wanted one are damaged (or not)
            *counts.entry("many").or_default() += 1;
            let junk: &[&str] = &["tru", "1.e5", "@", "[1 2]", "01", "\"x", "{\"k\" 1}", "nul", "-", "12", "\"ok\"", "[3]", "{\"q\":null}", "1,,2", "\"\\q\""];
            let k = rng.below(3);
            let mut arr: Vec<String> = (0..=k).map(|j| format!("{}", 10 + j)).collect();
            for _ in 0..rng.range(1, 3) { arr.push(rng.pick(junk).to_string()); }
            let d = match rng.below(3) {
                0 => format!("{{\"a\":[{}],\"b\":\"b\"}}", arr.join(",")),
                1 => format!("{{\"a\":[{}],\"b\":{{\"c\":1}}}}", arr.join(", ")),
                _ => format!("[[{}],\"b\"]", arr.join(",")),
            };
            let (p1, p2) = if d.starts_with('[') { (vec![PE::Idx(0), PE::Idx(k)], vec![PE::Idx(1)]) } else { (vec![PE::Key("a".into()), PE::Idx(k)], vec![PE::Key("b".into())]) };
            let wf2 = catch(|| sonic_rs::from_slice::<serde::de::IgnoredAny>(d.as_bytes()).is_ok()).unwrap_or(false);
            let mut e = many_event(d.as_bytes(), &[p1, p2], wf2);
            e["origin"] = json!("many-tail");
            outs[(i % shards) as usize].line(&e);
            continue;
        } else { match rng.below(10) {
            0..=5 => { *counts.entry("get").or_default() += 1; get_event(&doc, &paths[rng.below(paths.len())], wf) }
            6 | 7 => {
                *counts.entry("many").or_default() += 1;
                // shape-consistent path sets: all paths derived from the same parse; repeated and prefix paths included
                let mut ps = paths.clone();
                if rng.chance(1, 3) { ps.push(ps[0].clone()); }
                if rng.chance(1, 3) && !ps[0].is_empty() { let k = rng.below(ps[0].len()); ps.push(ps[0][..k].to_vec()); }
                if parsed_paths.is_none() { ps.truncate(1); }
                many_event(&doc, &consistent(ps), wf)
            }
            8 => { *counts.entry("iter").or_default() += 1; iter_event(&doc, wf) }
            _ => match &parsed {
                Some(_) if rng.chance(1, 2) => { *counts.entry("schema").or_default() += 1; let (d, sc) = schema_doc(&mut rng); schema_event(&d, &sc) }
                Some(v) => { *counts.entry("schema").or_default() += 1; let mut sc = Vec::new(); make_schema(&mut rng, v, 0, &mut sc); schema_event(&doc, &sc) }
                None => { *counts.entry("iter").or_default() += 1; iter_event(&doc, wf) }
            },
        } };
        if ev.to_string().contains("\"panic\":true") { panics += 1; }
        let mut ev = ev;
        ev["origin"] = json!(origin);
        outs[(i % shards) as usize].line(&ev);
    }
    for o in outs.iter_mut() { o.flush(); }
    println!("{}", json!({"suite":"lg-record","events":n,"panics":panics,"counts":counts}));
    0
}

/// keep only paths that are pairwise shape-consistent (at every shared prefix the next elements are both keys or both indices)
/// candidate path elements read off the raw bytes (works on malformed text too): every quoted run as a key, small indices
fn candidate_paths(bytes: &[u8]) -> Vec<Vec<PE>> {
    let mut keys: Vec<String> = Vec::new();
    let mut i = 0;
    while i < bytes.len() {
        if bytes[i] == b'"' {
            let mut j = i + 1;
            while j < bytes.len() && bytes[j] != b'"' { if bytes[j] == b'\\' { j += 1; } j += 1; }
            if j < bytes.len() { if let Ok(k) = std::str::from_utf8(&bytes[i + 1..j]) { if !k.contains('\\') && !keys.iter().any(|x| x == k) && keys.len() < 3 { keys.push(k.to_string()); } } }
            i = j + 1;
        } else { i += 1; }
    }
    let mut elems: Vec<PE> = keys.into_iter().map(PE::Key).collect();
    elems.push(PE::Idx(0)); elems.push(PE::Idx(1)); elems.push(PE::Key("zz".into()));
    let mut out: Vec<Vec<PE>> = vec![vec![]];
    for e in &elems { out.push(vec![e.clone()]); }
    for e in &elems { for f in elems.iter().take(3) { out.push(vec![e.clone(), f.clone()]); } }
    out
}

/// exhaustive small scope: every text explored by MC_JsonText (stride / phase select a sample) x candidate paths
/// through get / get_many / the iterators; events validated by Trace_LazyGet like the sampled ones
pub fn record_beh(args: &[String]) -> i32 {
    let out = arg(args, "--out").expect("--out");
    let shards = arg_u64(args, "--shards", 1);
    let stride = arg_u64(args, "--stride", 1).max(1);
    let phase = arg_u64(args, "--phase", 0) % stride;
    let seed = arg_u64(args, "--seed", 1);
    let tb = crate::jt::Tables::load(arg(args, "--tables").expect("--tables"));
    let recs = crate::jt::load_recs(arg(args, "--beh").expect("--beh"));
    let idx: std::collections::HashMap<String, usize> = recs.iter().enumerate().map(|(i, r)| (crate::jt::key(&r.t), i)).collect();
    // --filter value: only texts whose first value is complete for the validate-and-skip machine (whole text or prefix)
    let only_value = arg(args, "--filter") == Some("value");
    let mut inflight = Inflight::new(arg(args, "--inflight"));
    let mut rng = Rng::new(seed ^ 0x6c62);
    let mut outs: Vec<Out> = (0..shards).map(|i| Out::create(&format!("{out}.{i}.ndjson"))).collect();
    crate::jt::DUMP_ON.store(true, std::sync::atomic::Ordering::Relaxed);
    let (mut events, mut texts, mut panics, mut okdocs) = (0u64, 0u64, 0u64, 0u64);
    let mut seen = 0u64;
    for (ri, r) in recs.iter().enumerate() {
        if r.t.is_empty() || (only_value && !(r.lax || r.plax)) { continue; }
        seen += 1;
        if (seen - 1) % stride != phase { continue; }
        let mut docs: Vec<(Vec<u8>, &str)> = vec![(tb.canon_bytes(&r.t), "beh-canon")];
        let vs = crate::jt::variants(r, &idx, &recs, &tb, &mut rng, false);
        if vs.len() > 1 { let v = &vs[1 + rng.below(vs.len() - 1)]; docs.push((v.bytes.clone(), "beh-variant")); }
        for (doc, origin) in docs {
            texts += 1;
            inflight.set(ri as u64, &doc);
            let wf = catch(|| sonic_rs::from_slice::<serde::de::IgnoredAny>(&doc).is_ok()).unwrap_or(false);
            if wf { okdocs += 1; }
            let paths = candidate_paths(&doc);
            let mut evs: Vec<J> = Vec::new();
            // single lookups: every candidate of length <= 1, a rotating selection of the deeper ones
            for (k, p) in paths.iter().enumerate() { if p.len() <= 1 || (k + ri) % 4 == 0 { evs.push(get_event(&doc, p, wf)); } }
            let many: Vec<Vec<PE>> = consistent(paths.iter().filter(|p| !p.is_empty()).take(6).cloned().collect());
            if !many.is_empty() { evs.push(many_event(&doc, &many, wf)); }
            evs.push(iter_event(&doc, wf));
            for mut ev in evs {
                if ev.to_string().contains("\"panic\":true") { panics += 1; }
                ev["origin"] = json!(origin);
                outs[(events % shards) as usize].line(&ev);
                events += 1;
            }
        }
    }
    for o in outs.iter_mut() { o.flush(); }
    println!("{}", json!({"suite":"lg-record-beh","events":events,"texts":texts,"wellformed_texts":okdocs,"panics":panics,"stride":stride}));
    0
}

fn consistent(ps: Vec<Vec<PE>>) -> Vec<Vec<PE>> {
    let mut out: Vec<Vec<PE>> = Vec::new();
    'next: for p in ps {
        for q in &out {
            let mut i = 0;
            while i < p.len() && i < q.len() {
                match (&p[i], &q[i]) {
                    (PE::Key(a), PE::Key(b)) => { if a != b { break; } }
                    (PE::Idx(a), PE::Idx(b)) => { if a != b { break; } }
                    _ => continue 'next,
                }
                i += 1;
            }
        }
        out.push(p);
    }
    out
}
