//! Serialisation (C05) and parse->serialise round trips (C06), logged for Trace_Ser.tla.
use crate::dump::{bytes_j, cps, digits, dump_value, f64_j};
use crate::jt::Gen;
use crate::util::*;
use serde::ser::{SerializeMap, SerializeSeq, SerializeStruct, SerializeStructVariant, SerializeTupleVariant};
use serde::{Serialize, Serializer};
use serde_json::{json, Value as J};
use sonic_rs::writer::BufferedWriter;
use std::io::Write;

// ---- a generic value whose Serialize impl issues a chosen serde call sequence ----
#[derive(Clone, Debug)]
pub enum K { S(String), I(i64), U(u64), B(bool), C(char), D(Vec<String>) }
/// a Display value written in fragments (some of them empty): what Serializer::collect_str receives
pub struct Frags<'a>(pub &'a [String]);
impl std::fmt::Display for Frags<'_> { fn fmt(&self, f: &mut std::fmt::Formatter<'_>) -> std::fmt::Result { for s in self.0 { f.write_str(s)?; } Ok(()) } }
#[derive(Clone, Debug)]
pub enum T {
    Null, Unit, Bool(bool), I(i64), U(u64), I8(i8), U16(u16), I128(i128), U128(u128), F(f64), Str(String), Char(char),
    Seq(Vec<T>, bool), Tuple(Vec<T>), Map(Vec<(K, T)>, bool), Struct(Vec<(&'static str, T)>),
    None, Some(Box<T>), UnitVariant(&'static str), NewtypeVariant(&'static str, Box<T>), TupleVariant(&'static str, Vec<T>),
    StructVariant(&'static str, Vec<(&'static str, T)>), Newtype(Box<T>), Disp(Vec<String>),
}
impl Serialize for K {
    fn serialize<S: Serializer>(&self, s: S) -> Result<S::Ok, S::Error> {
        match self { K::S(x) => s.serialize_str(x), K::I(x) => s.serialize_i64(*x), K::U(x) => s.serialize_u64(*x), K::B(x) => s.serialize_bool(*x), K::C(x) => s.serialize_char(*x), K::D(v) => s.collect_str(&Frags(v)) }
    }
}
impl Serialize for T {
    fn serialize<S: Serializer>(&self, s: S) -> Result<S::Ok, S::Error> {
        match self {
            T::Null | T::None => s.serialize_none(), T::Unit => s.serialize_unit(), T::Bool(b) => s.serialize_bool(*b),
            T::I(x) => s.serialize_i64(*x), T::U(x) => s.serialize_u64(*x), T::I8(x) => s.serialize_i8(*x), T::U16(x) => s.serialize_u16(*x),
            T::I128(x) => s.serialize_i128(*x), T::U128(x) => s.serialize_u128(*x), T::F(x) => s.serialize_f64(*x),
            T::Str(x) => s.serialize_str(x), T::Char(c) => s.serialize_char(*c),
            T::Seq(v, known) => { let mut q = s.serialize_seq(if *known { Some(v.len()) } else { Option::None })?; for x in v { q.serialize_element(x)?; } q.end() }
            T::Tuple(v) => { use serde::ser::SerializeTuple; let mut q = s.serialize_tuple(v.len())?; for x in v { q.serialize_element(x)?; } q.end() }
            T::Map(v, known) => { let mut m = s.serialize_map(if *known { Some(v.len()) } else { Option::None })?; for (k, x) in v { m.serialize_entry(k, x)?; } m.end() }
            T::Struct(v) => { let mut m = s.serialize_struct("S", v.len())?; for (k, x) in v { m.serialize_field(k, x)?; } m.end() }
            T::Some(x) => s.serialize_some(&**x),
            T::UnitVariant(n) => s.serialize_unit_variant("E", 0, n),
            T::NewtypeVariant(n, x) => s.serialize_newtype_variant("E", 0, n, &**x),
            T::TupleVariant(n, v) => { let mut q = s.serialize_tuple_variant("E", 0, n, v.len())?; for x in v { q.serialize_field(x)?; } q.end() }
            T::StructVariant(n, v) => { let mut q = s.serialize_struct_variant("E", 0, n, v.len())?; for (k, x) in v { q.serialize_field(k, x)?; } q.end() }
            T::Newtype(x) => s.serialize_newtype_struct("N", &**x),
            T::Disp(v) => s.collect_str(&Frags(v)),
        }
    }
}
fn int_model(neg: bool, mag: String) -> J { json!({"t":"num","k": if neg { "i64" } else { "u64" },"neg":neg,"d":digits(&mag)}) }
fn str_model(s: &str) -> J { json!({"t":"str","s":cps(s)}) }
fn obj_model(m: Vec<(String, J)>) -> J { json!({"t":"obj","m": m.into_iter().map(|(k, v)| json!([cps(&k), v])).collect::<Vec<_>>()}) }
/// the JSON data model of a value (what its serialisation has to denote)
pub fn model(t: &T) -> J {
    match t {
        T::Null | T::None | T::Unit => json!({"t":"null"}), T::Bool(b) => json!({"t":"bool","b":b}),
        T::I(x) => int_model(*x < 0, x.to_string()), T::U(x) => int_model(false, x.to_string()), T::I8(x) => int_model(*x < 0, x.to_string()), T::U16(x) => int_model(false, x.to_string()),
        T::I128(x) => json!({"t":"num","k":"big","neg":*x < 0,"d":digits(&x.to_string())}), T::U128(x) => json!({"t":"num","k":"big","neg":false,"d":digits(&x.to_string())}),
        T::F(x) => if x.is_finite() { f64_j(*x) } else { json!({"t":"null"}) },
        T::Str(s) => str_model(s), T::Char(c) => str_model(&c.to_string()),
        T::Seq(v, _) | T::Tuple(v) => json!({"t":"arr","e": v.iter().map(model).collect::<Vec<_>>()}),
        T::Map(v, _) => obj_model(v.iter().map(|(k, x)| (match k { K::S(s) => s.clone(), K::I(i) => i.to_string(), K::U(u) => u.to_string(), K::B(b) => b.to_string(), K::C(c) => c.to_string(), K::D(v) => v.concat() }, model(x))).collect()),
        T::Struct(v) => obj_model(v.iter().map(|(k, x)| (k.to_string(), model(x))).collect()),
        T::Some(x) | T::Newtype(x) => model(x),
        T::Disp(v) => str_model(&v.concat()),
        T::UnitVariant(n) => str_model(n),
        T::NewtypeVariant(n, x) => obj_model(vec![(n.to_string(), model(x))]),
        T::TupleVariant(n, v) => obj_model(vec![(n.to_string(), json!({"t":"arr","e": v.iter().map(model).collect::<Vec<_>>()}))]),
        T::StructVariant(n, v) => obj_model(vec![(n.to_string(), obj_model(v.iter().map(|(k, x)| (k.to_string(), model(x))).collect()))]),
    }
}

const SPECIAL: &[&str] = &["\"", "\\", "\n", "\r", "\t", "\u{8}", "\u{c}", "\u{0}", "\u{1}", "\u{b}", "\u{1f}", "\u{7f}", "/", "é", "中", "😀", "\u{80}", "\u{7ff}", "\u{800}", "\u{ffff}", "\u{10ffff}", "\u{2028}"];
pub fn gen_string(rng: &mut Rng) -> String {
    let len = match rng.below(4) { 0 => rng.below(8), 1 => *rng.pick(&[15usize, 16, 17, 30, 31, 32, 33, 34, 62, 63, 64, 65, 66, 95, 96, 97, 127, 128, 129]), 2 => rng.below(200), _ => rng.below(1100) };
    let mut s = String::new();
    let nspecial = rng.below(4);
    let pos: Vec<usize> = (0..nspecial).map(|_| rng.below(len + 1)).collect();
    for i in 0..=len {
        for p in &pos { if *p == i { s.push_str(*rng.pick(SPECIAL)); } }
        if i < len { s.push(*rng.pick(b"abcdefghijklmnopqrstuvwxyz0123456789 _-.,:;[]{}") as char); }
    }
    s
}
fn gen_frags(rng: &mut Rng) -> Vec<String> {
    (0..rng.below(5)).map(|_| match rng.below(4) { 0 => String::new(), 1 => rng.pick(SPECIAL).to_string(), 2 => gen_string(rng).chars().take(40).collect(), _ => "::".to_string() }).collect()
}
pub fn gen_tree(rng: &mut Rng, depth: usize) -> T {
    let names: &[&'static str] = &["a", "b", "k\"q", "", "long_field_name_0123456789", "é"];
    let leaf = depth >= 3 || rng.chance(1, 3);
    if leaf {
        return match rng.below(15) {
            14 => T::Disp(gen_frags(rng)),
            0 => T::Null, 1 => T::Bool(rng.chance(1, 2)), 2 => T::I(rng.next() as i64 >> rng.below(64)), 3 => T::U(rng.next() >> rng.below(64)),
            4 => T::F(match rng.below(5) { 0 => f64::NAN, 1 => f64::INFINITY, 2 => -0.0, 3 => f64::from_bits(rng.next()), _ => (rng.below(2000) as f64 - 1000.0) / 8.0 }),
            5 | 6 | 7 => T::Str(gen_string(rng)), 8 => T::Char(*rng.pick(&['a', '"', '\\', '\n', '\u{1}', 'é', '😀'])), 9 => T::Unit, 10 => T::None,
            11 => T::I8(rng.next() as i8), 12 => T::U16(rng.next() as u16), _ => if rng.chance(1, 2) { T::I128(((rng.next() as i128) << 64) | rng.next() as i128) } else { T::U128(((rng.next() as u128) << 64) | rng.next() as u128) },
        };
    }
    let n = rng.below(4);
    match rng.below(11) {
        0 | 1 => T::Seq((0..n).map(|_| gen_tree(rng, depth + 1)).collect(), rng.chance(1, 2)),
        2 => T::Tuple((0..n).map(|_| gen_tree(rng, depth + 1)).collect()),
        3 | 4 => T::Map((0..n).map(|i| (match rng.below(7) { 6 => K::D(gen_frags(rng)), 0 => K::I(rng.next() as i64 >> rng.below(64)), 1 => K::U(rng.next() >> rng.below(64)), 2 => K::B(rng.chance(1, 2)), 3 => K::C(*rng.pick(&['x', '"', '\n'])), _ => K::S(if rng.chance(1, 3) { gen_string(rng) } else { format!("k{i}") }) }, gen_tree(rng, depth + 1))).collect(), rng.chance(1, 2)),
        5 => T::Struct((0..n).map(|i| (names[i % names.len()], gen_tree(rng, depth + 1))).collect()),
        6 => T::Some(Box::new(gen_tree(rng, depth + 1))),
        7 => if rng.chance(1, 2) { T::UnitVariant(*rng.pick(names)) } else { T::NewtypeVariant(*rng.pick(names), Box::new(gen_tree(rng, depth + 1))) },
        8 => T::TupleVariant(*rng.pick(names), (0..n).map(|_| gen_tree(rng, depth + 1)).collect()),
        9 => T::StructVariant(*rng.pick(names), (0..n).map(|i| (names[i % names.len()], gen_tree(rng, depth + 1))).collect()),
        _ => T::Newtype(Box::new(gen_tree(rng, depth + 1))),
    }
}

type Sink = std::rc::Rc<std::cell::RefCell<Vec<u8>>>;
/// a sink that accepts `limit` bytes and then fails (usize::MAX: never fails); the bytes stay observable
struct FailAfter { buf: Sink, limit: usize }
impl Write for FailAfter {
    fn write(&mut self, b: &[u8]) -> std::io::Result<usize> {
        let mut buf = self.buf.borrow_mut();
        if buf.len() >= self.limit && !b.is_empty() { return Err(std::io::Error::new(std::io::ErrorKind::Other, "sink full")); }
        let n = b.len().min(self.limit - buf.len());
        buf.extend_from_slice(&b[..n]);
        Ok(n)
    }
    fn flush(&mut self) -> std::io::Result<()> { Ok(()) }
}

fn outj(r: Result<Vec<u8>, String>) -> J { match r { Ok(b) => json!({"ok":true,"b":bytes_j(&b)}), Err(e) => json!({"ok":false,"b":[],"err":e}) } }
fn es(e: sonic_rs::Error) -> String { e.to_string() }

pub fn ser_event<V: Serialize>(v: &V, model: J, origin: &str) -> J {
    let mut outs = serde_json::Map::new();
    let mut pretty = serde_json::Map::new();
    let g = |f: &dyn Fn() -> Result<Vec<u8>, String>| -> J { match catch(f) { Ok(r) => outj(r), Err(p) => json!({"ok":false,"b":[],"panic":p}) } };
    outs.insert("to_string".into(), g(&|| sonic_rs::to_string(v).map(|s| s.into_bytes()).map_err(es)));
    outs.insert("to_vec".into(), g(&|| sonic_rs::to_vec(v).map_err(es)));
    outs.insert("writer_vec".into(), g(&|| { let mut w = Vec::new(); sonic_rs::to_writer(&mut w, v).map_err(es)?; Ok(w) }));
    outs.insert("writer_bytesmut".into(), g(&|| { use bytes::BufMut; let w = bytes::BytesMut::new().writer(); let mut w = w; sonic_rs::to_writer(&mut w, v).map_err(es)?; Ok(w.into_inner().to_vec()) }));
    outs.insert("writer_bytesmut_ref".into(), g(&|| { use bytes::BufMut; let mut b = bytes::BytesMut::new(); { let mut w = (&mut b).writer(); sonic_rs::to_writer(&mut w, v).map_err(es)?; } Ok(b.to_vec()) }));
    outs.insert("buffered_writer".into(), g(&|| { let sink: Sink = Default::default(); let mut w = BufferedWriter::new(FailAfter { buf: sink.clone(), limit: usize::MAX }); sonic_rs::to_writer(&mut w, v).map_err(es)?; let r = sink.borrow().clone(); Ok(r) }));
    outs.insert("io_bufwriter".into(), g(&|| { let mut w = std::io::BufWriter::with_capacity(16, Vec::new()); sonic_rs::to_writer(&mut w, v).map_err(es)?; w.into_inner().map_err(|e| e.to_string()) }));
    outs.insert("io_bufwriter_big".into(), g(&|| { let mut w = std::io::BufWriter::new(Vec::new()); sonic_rs::to_writer(&mut w, v).map_err(es)?; w.into_inner().map_err(|e| e.to_string()) }));
    outs.insert("boxed_vec".into(), g(&|| { let mut w: Box<Vec<u8>> = Box::new(Vec::new()); sonic_rs::to_writer(&mut w, v).map_err(es)?; Ok(*w) }));
    // explicit serializers: Serializer::new / pretty / with_formatter(PrettyFormatter::with_indent(unit))
    outs.insert("serializer_new".into(), g(&|| { let mut w = Vec::new(); { let mut s = sonic_rs::Serializer::new(&mut w); v.serialize(&mut s).map_err(es)?; } Ok(w) }));
    pretty.insert("serializer_pretty".into(), g(&|| { let mut w = Vec::new(); { let mut s = sonic_rs::Serializer::pretty(&mut w); v.serialize(&mut s).map_err(es)?; } Ok(w) }));
    let mut pretty_ind: Vec<J> = Vec::new();
    for unit in [&b"\t"[..], b"    ", b"", b"-"] {
        let r = g(&|| { let mut w = Vec::new(); { let mut s = sonic_rs::Serializer::with_formatter(&mut w, sonic_rs::format::PrettyFormatter::with_indent(unit)); v.serialize(&mut s).map_err(es)?; } Ok(w) });
        pretty_ind.push(json!({"ind": bytes_j(unit), "out": r}));
    }
    pretty.insert("to_string_pretty".into(), g(&|| sonic_rs::to_string_pretty(v).map(|s| s.into_bytes()).map_err(es)));
    pretty.insert("to_vec_pretty".into(), g(&|| sonic_rs::to_vec_pretty(v).map_err(es)));
    pretty.insert("writer_pretty".into(), g(&|| { let mut w = Vec::new(); sonic_rs::to_writer_pretty(&mut w, v).map_err(es)?; Ok(w) }));
    // failing sinks
    let full = sonic_rs::to_vec(v).unwrap_or_default();
    let mut fails = Vec::new();
    let mut ns: Vec<usize> = vec![0, 1, full.len() / 2, full.len().saturating_sub(1), full.len(), full.len() + 5];
    ns.dedup();
    for n in ns {
        let r = catch(|| { let sink: Sink = Default::default(); let mut w = BufferedWriter::new(FailAfter { buf: sink.clone(), limit: n }); let ok = sonic_rs::to_writer(&mut w, v).is_ok(); let wr = sink.borrow().clone(); (ok, wr) });
        match r { Ok((ok, written)) => fails.push(json!({"n":n,"ok":ok,"written":bytes_j(&written)})), Err(p) => fails.push(json!({"n":n,"ok":true,"written":[],"panic":p})) }
    }
    json!({"ev":"ser","origin":origin,"model":model,"outs":outs,"pretty":pretty,"pretty_ind":pretty_ind,"fails":fails})
}
pub fn rt_event(text: &[u8], origin: &str) -> Option<J> {
    let v: sonic_rs::Value = catch(|| sonic_rs::from_slice(text).ok()).ok()??;
    let dump = dump_value(&v).unwrap_or_else(|e| json!({"t":"inconsistent","why":e}));
    let s = sonic_rs::to_string(&v).ok()?;
    // a serialisation that does not parse back is a finding, not a reason to drop the event
    let (v2, s2): (sonic_rs::Value, String) = match sonic_rs::from_str::<sonic_rs::Value>(&s) { Ok(v2) => { let s2 = sonic_rs::to_string(&v2).ok()?; (v2, s2) } Err(e) => (sonic_rs::Value::default(), format!("<reparse failed: {e}>")) };
    let pretty = sonic_rs::to_string_pretty(&v).ok()?;
    let display = format!("{}", v);
    let vec = sonic_rs::to_vec(&v).ok()?;
    let sraw = { let mut de = sonic_rs::Deserializer::from_slice(text).use_rawnumber(); let rv: sonic_rs::Value = de.deserialize().ok()?; sonic_rs::to_string(&rv).ok()? };
    // raw-number mode through the copying driver (the value is not at the start of the input: second document of a stream)
    let sraw2 = { let mut buf = b"0 ".to_vec(); buf.extend_from_slice(text); let mut de = sonic_rs::Deserializer::from_slice(&buf).use_rawnumber(); let _first: sonic_rs::Value = de.deserialize().ok()?; let rv: sonic_rs::Value = de.deserialize().ok()?; drop(de); buf.iter_mut().for_each(|b| *b = b'#'); sonic_rs::to_string(&rv).ok()? };
    let dump_s = dump_value(&v2).unwrap_or_else(|e| json!({"t":"inconsistent","why":e}));
    Some(json!({"ev":"rt","sraw2":bytes_j(sraw2.as_bytes()),"origin":origin,"sorted":cfg!(feature = "sort_keys"),"dump_s":dump_s,"t":bytes_j(text),"dump":dump,"s":bytes_j(s.as_bytes()),"s2":bytes_j(s2.as_bytes()),"pretty":bytes_j(pretty.as_bytes()),
                "display":bytes_j(display.as_bytes()),"vec":bytes_j(&vec),"sraw":bytes_j(sraw.as_bytes())}))
}

pub fn record(args: &[String]) -> i32 {
    let seed = arg_u64(args, "--seed", 1);
    let n = arg_u64(args, "--n", 1000);
    let out = arg(args, "--out").expect("--out");
    let shards = arg_u64(args, "--shards", 1);
    let mode = arg(args, "--mode").unwrap_or("ser");
    let mut inflight = Inflight::new(arg(args, "--inflight"));
    let mut rng = Rng::new(seed ^ 0x7372);
    let mut outs: Vec<Out> = (0..shards).map(|i| Out::create(&format!("{out}.{i}.ndjson"))).collect();
    let (mut count, mut panics) = (0u64, 0u64);
    for i in 0..n {
        let ev = if mode == "rt" {
            let doc = { let mut g = Gen { rng: &mut rng }; g.doc() };
            inflight.set(i, &doc);
            match rt_event(&doc, "gen") { Some(e) => e, None => continue }
        } else if i % 3 == 0 {
            // strings placed so that they end on the last byte of a page in front of an inaccessible page
            let s = gen_string(&mut rng);
            inflight.set(i, s.as_bytes());
            let gb = GuardBuf::new(s.as_bytes());
            let gs = unsafe { std::str::from_utf8_unchecked(gb.as_slice()) };
            ser_event(&gs, json!({"t":"str","s":cps(&s)}), "guard-string")
        } else {
            let t = gen_tree(&mut rng, 0);
            inflight.set(i, format!("{:?}", t).as_bytes());
            let m = model(&t);
            ser_event(&t, m, "tree")
        };
        if ev.to_string().contains("\"panic\":") { panics += 1; }
        outs[(count % shards) as usize].line(&ev);
        count += 1;
    }
    for o in outs.iter_mut() { o.flush(); }
    println!("{}", json!({"suite":"sr-record","mode":mode,"events":count,"panics":panics}));
    0
}
