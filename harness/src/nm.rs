//! Numbers (C07 parse, C08 write/read): literal families are parsed into every numeric target and numbers of every
//! type are written and read back; everything is logged for Trace_Numbers.tla, which decides exactness with
//! base-1000 limb arithmetic (no floating point on the specification side).
use crate::dump::{bytes_j, digits, f64_j};
use crate::util::*;
use serde_json::{json, Value as J};
use sonic_rs::{JsonNumberTrait, JsonValueTrait, Number, RawNumber, Value};
use std::collections::HashMap;

fn f32_j(x: f32) -> J {
    let b = x.to_bits();
    json!({"neg": (b >> 31) == 1, "e": (b >> 23) & 0xff, "m": digits(&(b & 0x7fffff).to_string())})
}
fn int_j(neg: bool, mag: String) -> J { json!({"neg": neg, "d": digits(&mag)}) }
fn errj() -> J { json!({"ok":false,"panic":false}) }
fn run(f: impl FnOnce() -> J) -> J { catch(f).unwrap_or_else(|p| json!({"ok":false,"panic":true,"msg":p})) }
fn num_dump(n: &Number) -> J {
    if n.is_u64() { json!({"ok":true,"panic":false,"k":"u64","neg":false,"d":digits(&n.as_u64().unwrap().to_string())}) }
    else if n.is_i64() { let x = n.as_i64().unwrap(); json!({"ok":true,"panic":false,"k":"i64","neg":x<0,"d":digits(&x.to_string())}) }
    else { let mut j = f64_j(n.as_f64().unwrap()); j["ok"] = json!(true); j["panic"] = json!(false); j }
}
macro_rules! int_target {
    ($res:ident, $lit:ident, $arr:ident, $key:ident, $name:expr, $t:ty) => {
        $res.insert($name.into(), run(|| match sonic_rs::from_slice::<$t>($lit) { Ok(x) => { let mut j = int_j(x < (0 as $t), x.to_string()); j["ok"] = json!(true); j["panic"] = json!(false); j } Err(_) => errj() }));
        $res.insert(format!("{}_seq", $name), run(|| match sonic_rs::from_slice::<Vec<$t>>(&$arr) { Ok(x) => { let mut j = int_j(x[0] < (0 as $t), x[0].to_string()); j["ok"] = json!(true); j["panic"] = json!(false); j } Err(_) => errj() }));
        $res.insert(format!("{}_key", $name), run(|| match sonic_rs::from_slice::<HashMap<$t, u8>>(&$key) { Ok(x) => { let k = *x.keys().next().unwrap(); let mut j = int_j(k < (0 as $t), k.to_string()); j["ok"] = json!(true); j["panic"] = json!(false); j } Err(_) => errj() }));
    };
}

pub fn parse_event(lit: &[u8], ws: usize, origin: &str) -> J {
    let mut res = serde_json::Map::new();
    let pad = vec![b' '; ws];
    let top: Vec<u8> = [&pad[..], lit].concat();
    let arr: Vec<u8> = [&pad[..], b"[", lit, b"]"].concat();
    let arr2: Vec<u8> = [&pad[..], b"[", lit, b",\"tail tail tail tail tail tail tail tail\"]"].concat();
    let key: Vec<u8> = [&b"{\""[..], lit, b"\":1}"].concat();
    let t = &top[..];
    // DOM / Number / f64 / f32
    res.insert("value".into(), run(|| match sonic_rs::from_slice::<Value>(t) { Ok(v) => match v.as_number() { Some(n) => num_dump(&n), None => errj() }, Err(_) => errj() }));
    res.insert("value_seq".into(), run(|| match sonic_rs::from_slice::<(Value, String)>(&arr2) { Ok(v) => match v.0.as_number() { Some(n) => num_dump(&n), None => errj() }, Err(_) => errj() }));
    res.insert("number".into(), run(|| match sonic_rs::from_slice::<Number>(t) { Ok(n) => num_dump(&n), Err(_) => errj() }));
    res.insert("f64".into(), run(|| match sonic_rs::from_slice::<f64>(t) { Ok(x) => { let mut j = f64_j(x); j["ok"] = json!(true); j["panic"] = json!(false); j } Err(_) => errj() }));
    res.insert("f64_seq".into(), run(|| match sonic_rs::from_slice::<(f64, String)>(&arr2) { Ok(x) => { let mut j = f64_j(x.0); j["ok"] = json!(true); j["panic"] = json!(false); j } Err(_) => errj() }));
    res.insert("f32".into(), run(|| match sonic_rs::from_slice::<f32>(t) { Ok(x) => { let mut j = f32_j(x); j["ok"] = json!(true); j["panic"] = json!(false); j } Err(_) => errj() }));
    res.insert("sonic_number".into(), run(|| {
        // the number crate directly: parse_number(data, &mut index, negative)
        let neg = lit.first() == Some(&b'-');
        let mut idx = if neg { 1 } else { 0 };
        if idx >= lit.len() || !lit[idx].is_ascii_digit() { return json!({"ok":false,"panic":false,"skip":true}); }
        match sonic_number::parse_number(lit, &mut idx, neg) {
            Ok(sonic_number::ParserNumber::Unsigned(u)) => json!({"ok":true,"panic":false,"k":"u64","neg":false,"d":digits(&u.to_string()),"end":idx}),
            Ok(sonic_number::ParserNumber::Signed(i)) => json!({"ok":true,"panic":false,"k":"i64","neg":i<0,"d":digits(&i.to_string()),"end":idx}),
            Ok(sonic_number::ParserNumber::Float(f)) => { let mut j = f64_j(f); j["ok"] = json!(true); j["panic"] = json!(false); j["end"] = json!(idx); j }
            Err(_) => json!({"ok":false,"panic":false}),
        }
    }));
    // raw number: literal kept verbatim, accessors agree with parsing it
    res.insert("rawnumber".into(), run(|| match sonic_rs::from_slice::<RawNumber>(t) {
        Ok(r) => json!({"ok":true,"panic":false,"raw":bytes_j(r.as_str().as_bytes()),"ser":bytes_j(sonic_rs::to_string(&r).unwrap_or_default().as_bytes()),
                        "as": match (r.as_u64(), r.as_i64(), r.as_f64()) { (Some(u), _, _) => json!({"k":"u64","neg":false,"d":digits(&u.to_string())}), (_, Some(i), _) => json!({"k":"i64","neg":i<0,"d":digits(&i.to_string())}), (_, _, Some(f)) => f64_j(f), _ => json!({"k":"none"}) }}),
        Err(_) => errj() }));
    res.insert("rawnumber_quoted".into(), run(|| { let q: Vec<u8> = [&b"\""[..], lit, b"\""].concat(); match sonic_rs::from_slice::<RawNumber>(&q) {
        Ok(r) => json!({"ok":true,"panic":false,"raw":bytes_j(r.as_str().as_bytes()),"ser":bytes_j(sonic_rs::to_string(&r).unwrap_or_default().as_bytes())}), Err(_) => errj() } }));
    int_target!(res, t, arr, key, "u8", u8);
    int_target!(res, t, arr, key, "i8", i8);
    int_target!(res, t, arr, key, "u16", u16);
    int_target!(res, t, arr, key, "i16", i16);
    int_target!(res, t, arr, key, "u32", u32);
    int_target!(res, t, arr, key, "i32", i32);
    int_target!(res, t, arr, key, "u64", u64);
    int_target!(res, t, arr, key, "i64", i64);
    int_target!(res, t, arr, key, "u128", u128);
    int_target!(res, t, arr, key, "i128", i128);
    json!({"ev":"parse","origin":origin,"lit":bytes_j(lit),"res":res})
}

// ---- decimal strings for exact midpoints (generator only: expectations come from the spec) ----
fn dec_mul2(d: &mut Vec<u8>) { let mut c = 0; for x in d.iter_mut().rev() { let v = *x * 2 + c; *x = v % 10; c = v / 10; } if c > 0 { d.insert(0, c); } }
/// exact decimal text of m * 2^e (e may be negative)
fn exact_decimal(m: u64, e: i32) -> String {
    let mut int: Vec<u8> = m.to_string().bytes().map(|b| b - b'0').collect();
    if e >= 0 { for _ in 0..e { dec_mul2(&mut int); } return int.iter().map(|d| (d + b'0') as char).collect(); }
    // m / 2^k = m * 5^k / 10^k
    let k = (-e) as usize;
    for _ in 0..k { let mut c = 0; for x in int.iter_mut().rev() { let v = *x * 5 + c; *x = v % 10; c = v / 10; } while c > 0 { int.insert(0, c % 10); c /= 10; } }
    let s: String = int.iter().map(|d| (d + b'0') as char).collect();
    if s.len() > k { format!("{}.{}", &s[..s.len() - k], &s[s.len() - k..]) } else { format!("0.{}{}", "0".repeat(k - s.len()), s) }
}

pub fn gen_literal(rng: &mut Rng, i: u64) -> (Vec<u8>, &'static str) {
    let digs = |rng: &mut Rng, n: usize| -> String { (0..n).map(|k| if k == 0 { *rng.pick(b"123456789") as char } else { *rng.pick(b"0123456789") as char }).collect() };
    match i % 12 {
        0 => { // small grammar strings over a tiny alphabet, valid and invalid
            let n = rng.range(1, 6); ((0..n).map(|_| *rng.pick(b"-+019.eE")).collect(), "grammar") }
        1 => { // many digits
            let hi = if rng.chance(1, 6) { 800 } else { 60 }; let n = rng.range(1, hi); let mut s = digs(rng, n);
            if rng.chance(1, 2) { let p = rng.range(1, s.len()); s.insert(p.min(s.len()), '.'); if s.ends_with('.') { s.push('0'); } }
            if rng.chance(1, 2) { s.push_str(&format!("e{}", rng.range(0, 600) as i64 - 300)); }
            (s.into_bytes(), "digits") }
        2 => { let e = rng.range(0, 800) as i64 - 400; let m = *rng.pick(&["1", "9", "1.0", "9.999999999999999", "1.7976931348623157", "2.2250738585072014", "4.9", "2.4703282292062327", "2.4703282292062328"]); (format!("{}e{}", m, e).into_bytes(), "pow10") }
        3 if rng.chance(1, 2) => { // exact midpoints that fit 19-20 significant digits, in every spelling: D e-k, positional, padded
            let j = rng.below(9) as u32;
            let mut m: u64 = (1u64 << 52) | (rng.next() & ((1u64 << 52) - 1));
            let z = rng.below(30); m = (m >> z) << z;
            if rng.chance(1, 2) { m >>= rng.below(20); }
            let d: u128 = (2 * m as u128 + 1) * 5u128.pow(j + 1);
            let ds = d.to_string();
            let k = (j + 1) as usize;
            let s = match rng.below(4) {
                0 => format!("{}e-{}", ds, k),
                1 => if ds.len() > k { format!("{}.{}", &ds[..ds.len() - k], &ds[ds.len() - k..]) } else { format!("0.{}{}", "0".repeat(k - ds.len()), ds) },
                2 => format!("{}0e-{}", ds, k + 1),
                _ => format!("{}.{}e-{}", &ds[..1], &ds[1..], k as i64 - (ds.len() as i64 - 1)),
            };
            (s.replace("e--", "e").into_bytes(), "halfway19") }
        3 | 4 => { // exact midpoint between two adjacent doubles, and its neighbours
            let m: u64 = (1u64 << 52) | (rng.next() & ((1u64 << 52) - 1));
            let e = rng.range(0, 160) as i32 - 110;
            let mid = exact_decimal(2 * m + 1, e - 1);
            let mut s = mid.clone();
            match rng.below(4) { 0 => {},
                3 => { // the tie (or the tie plus one unit in a far-away place) written with more significant digits than any fixed-size digit buffer holds
                    if !s.contains('.') { s.push('.'); }
                    let sig = s.bytes().filter(|b| b.is_ascii_digit()).count();
                    let target = *rng.pick(&[760usize, 767, 768, 769, 770, 800, 1100]);
                    if target > sig { s.push_str(&"0".repeat(target - sig)); }
                    if rng.chance(1, 2) { s.push('1'); } },
                1 => s.push_str(if s.contains('.') { "0000000000000000000001" } else { ".0000000000000000000001" }), _ => { // just below: decrement the last digit (it is 5 or non-zero)
                let mut b = s.into_bytes(); let mut k = b.len() - 1; loop { if b[k] == b'.' { k -= 1; continue; } if b[k] > b'0' { b[k] -= 1; break; } b[k] = b'9'; k -= 1; } s = String::from_utf8(b).unwrap(); s.push_str("9999999999"); if !s.contains('.') { let n = s.len() - 10; s.insert(n, '.'); } } }
            (s.into_bytes(), "halfway") }
        5 => { let base = *rng.pick(&["18446744073709551615", "18446744073709551616", "9223372036854775807", "9223372036854775808", "9223372036854775809", "10000000000000000000", "99999999999999999999", "340282366920938463463374607431768211455", "340282366920938463463374607431768211456", "170141183460469231731687303715884105727", "170141183460469231731687303715884105728", "170141183460469231731687303715884105729", "255", "256", "127", "128", "129", "65535", "65536", "32767", "32768", "4294967295", "4294967296", "2147483647", "2147483648", "0", "1"]);
               (format!("{}{}", if rng.chance(1, 2) { "-" } else { "" }, base).into_bytes(), "intbound") }
        6 if rng.chance(1, 3) => { // zero integer part, zeros right after the point, then more digits than fit the fast paths
            let z = rng.below(26); let n = rng.range(15, 45); let mut s = format!("0.{}{}", "0".repeat(z), digs(rng, n)); if rng.chance(1, 3) { s.push_str(&format!("e{}", rng.range(0, 60) as i64 - 30)); } (s.into_bytes(), "smallfraction") }
        6 => { // 16-digit fraction reader at every alignment: int digits x fraction digits
            let (a, b) = (rng.range(1, 5), rng.range(1, 40)); let mut s = format!("{}.{}", digs(rng, a), digs(rng, b)); if rng.chance(1, 3) { s.push_str(&format!("E{}", rng.range(0, 40) as i64 - 20)); } (s.into_bytes(), "fraction") }
        7 => { let z = rng.range(1, 400); let s = match rng.below(4) { 0 => format!("0.{}1e{}", "0".repeat(z), z), 1 => format!("1{}e-{}", "0".repeat(z), z), 2 => format!("1e{}{}", "0".repeat(z % 30), rng.below(400)), _ => format!("{}e99999999999999999999", rng.below(10)) }; (s.into_bytes(), "padded") }
        8 => { let h = *rng.pick(&["1e308", "1.7976931348623157e308", "1.7976931348623158e308", "1.7976931348623159e308", "18e307", "17976931348623157e292", "17976931348623159e292", "2e308", "9999999999999999999e290", "1e309", "0.00001e314", "1e-400",
               "179769313486231580793728971405303415079934132710037826936173778980444968292764750946649017977587207096330286416692887910946555547851940402630657488671505820681908902000708383676273854845817711531764475730270069855571366959622842914819860834936475292719074168444365510704342711559699508093042880177904174497792",
               "179769313486231580793728971405303415079934132710037826936173778980444968292764750946649017977587207096330286416692887910946555547851940402630657488671505820681908902000708383676273854845817711531764475730270069855571366959622842914819860834936475292719074168444365510704342711559699508093042880177904174497791",
               "4.9e-324", "2.4703282292062327e-324", "2.4703282292062328e-324", "9007199254740993", "9007199254740992.5", "1e22", "1e23", "8.41e21", "3.4028235e38", "3.4028236e38", "3.40282357e38", "1e39", "1.401298464324817e-45", "7.006492321624085e-46", "7.006492321624086e-46",
               "0.3", "0.1e1", "1.5", "16777217", "16777217.0", "9007199254740991", "-0", "-0.0", "-0e5", "0e-5", "0.0"]); (format!("{}{}", if rng.chance(1, 4) && !h.starts_with('-') { "-" } else { "" }, h).into_bytes(), "hard") }
        9 => { let x = f64::from_bits(rng.next()); if x.is_finite() { (format!("{:e}", x).into_bytes(), "shortest") } else { (b"1".to_vec(), "shortest") } }
        10 => { let x = f64::from_bits(rng.next() & 0x000f_ffff_ffff_ffff); (format!("{:e}", x).into_bytes(), "subnormal") }
        _ => { let n = rng.range(1, 25); let mut s = digs(rng, n); if rng.chance(1, 2) { s.insert(0, '-'); } (s.into_bytes(), "int") }
    }
}

fn f64_fields(x: f64) -> J { let mut j = f64_j(x); j.as_object_mut().unwrap().remove("t"); j.as_object_mut().unwrap().remove("k"); j }

pub fn write_event(rng: &mut Rng, i: u64) -> J {
    macro_rules! int_rt { ($t:ty, $name:expr, $x:expr) => {{
        let x: $t = $x;
        let text = sonic_rs::to_string(&x).unwrap_or_default();
        let y = sonic_rs::from_str::<$t>(&text).ok();
        let via_dom = sonic_rs::to_value(&x).ok().and_then(|v| sonic_rs::from_value::<$t>(&v).ok());
        json!({"ev":"write","type":$name,"x":int_j(x < (0 as $t), x.to_string()),"text":bytes_j(text.as_bytes()),
               "y": match y { Some(y) => { let mut j = int_j(y < (0 as $t), y.to_string()); j["ok"] = json!(true); j } None => json!({"ok":false}) },
               "dom": match via_dom { Some(y) => { let mut j = int_j(y < (0 as $t), y.to_string()); j["ok"] = json!(true); j } None => json!({"ok":false}) }})
    }}; }
    let pick_u64 = |rng: &mut Rng| -> u64 { match rng.below(4) { 0 => rng.next(), 1 => rng.next() >> rng.below(64), 2 => *rng.pick(&[0u64, 1, u64::MAX, u64::MAX - 1, i64::MAX as u64, i64::MAX as u64 + 1, 10_000_000_000_000_000_000, 9_999_999_999_999_999_999]), _ => 10u64.pow(rng.below(20) as u32).wrapping_add(rng.below(3) as u64).wrapping_sub(1) } };
    match i % 10 {
        0 | 1 | 2 => { // f64: every exponent, around powers of two and ten, subnormals, +-0
            let x = match rng.below(6) { 0 => f64::from_bits(rng.next()), 1 => f64::from_bits(((rng.below(2047) as u64) << 52) | (rng.next() & ((1 << 52) - 1)) | ((rng.below(2) as u64) << 63)),
                2 => { let p = 2f64.powi(rng.range(0, 2000) as i32 - 1000); f64::from_bits(p.to_bits().wrapping_add(rng.below(3) as u64).wrapping_sub(1)) }
                3 => { let p = (rng.range(1, 9) as f64) * 10f64.powi(rng.range(0, 631) as i32 - 323); f64::from_bits(p.to_bits().wrapping_add(rng.below(3) as u64).wrapping_sub(1)) }
                4 => f64::from_bits(rng.next() & 0x800f_ffff_ffff_ffff), _ => *rng.pick(&[0.0, -0.0, f64::MAX, f64::MIN_POSITIVE, 5e-324, 1.0, 0.1, 1e21, 1e-7, 123456789.0]) };
            if !x.is_finite() { return json!({"ev":"skip"}); }
            let text = sonic_rs::to_string(&x).unwrap_or_default();
            let y = sonic_rs::from_str::<f64>(&text).ok();
            let dom = sonic_rs::to_value(&x).ok().and_then(|v| v.as_f64());
            let dom_text = sonic_rs::to_value(&x).ok().map(|v| sonic_rs::to_string(&v).unwrap_or_default()).unwrap_or_default();
            json!({"ev":"write","type":"f64","x":f64_fields(x),"text":bytes_j(text.as_bytes()),"dom_text":bytes_j(dom_text.as_bytes()),
                   "y": match y { Some(y) => { let mut j = f64_fields(y); j["ok"] = json!(true); j } None => json!({"ok":false}) },
                   "dom": match dom { Some(y) => { let mut j = f64_fields(y); j["ok"] = json!(true); j } None => json!({"ok":false}) }}) }
        3 | 4 => { let x = f32::from_bits(rng.next() as u32); if !x.is_finite() { return json!({"ev":"skip"}); }
            let text = sonic_rs::to_string(&x).unwrap_or_default();
            let y = sonic_rs::from_str::<f32>(&text).ok();
            json!({"ev":"write","type":"f32","x":f32_j(x),"text":bytes_j(text.as_bytes()),"y": match y { Some(y) => { let mut j = f32_j(y); j["ok"] = json!(true); j } None => json!({"ok":false}) }}) }
        5 => int_rt!(u64, "u64", pick_u64(rng)),
        6 => int_rt!(i64, "i64", pick_u64(rng) as i64),
        7 => match rng.below(4) { 0 => int_rt!(u8, "u8", rng.next() as u8), 1 => int_rt!(i8, "i8", rng.next() as i8), 2 => int_rt!(u16, "u16", rng.next() as u16), _ => int_rt!(i16, "i16", rng.next() as i16) },
        8 => match rng.below(2) { 0 => int_rt!(u32, "u32", rng.next() as u32), _ => int_rt!(i32, "i32", rng.next() as i32) },
        _ => { // 128-bit: the text route only (the DOM has no 128-bit numbers)
            let x: u128 = match rng.below(5) { 0 => ((rng.next() as u128) << 64) | rng.next() as u128, 1 => u128::MAX - rng.below(3) as u128, 2 => (i128::MIN as u128).wrapping_add(rng.below(3) as u128), 3 => (i128::MAX as u128) - rng.below(3) as u128, _ => (rng.next() as u128) << rng.below(64) };
            if rng.chance(1, 2) {
                let text = sonic_rs::to_string(&x).unwrap_or_default(); let y = sonic_rs::from_str::<u128>(&text).ok();
                json!({"ev":"write","type":"u128","x":int_j(false, x.to_string()),"text":bytes_j(text.as_bytes()),"y": match y { Some(y) => { let mut j = int_j(false, y.to_string()); j["ok"] = json!(true); j } None => json!({"ok":false}) }})
            } else {
                let x = x as i128; let text = sonic_rs::to_string(&x).unwrap_or_default(); let y = sonic_rs::from_str::<i128>(&text).ok();
                json!({"ev":"write","type":"i128","x":int_j(x < 0, x.to_string()),"text":bytes_j(text.as_bytes()),"y": match y { Some(y) => { let mut j = int_j(y < 0, y.to_string()); j["ok"] = json!(true); j } None => json!({"ok":false}) }})
            } }
    }
}

pub fn record(args: &[String]) -> i32 {
    let seed = arg_u64(args, "--seed", 1);
    let n = arg_u64(args, "--n", 1000);
    let out = arg(args, "--out").expect("--out");
    let shards = arg_u64(args, "--shards", 1);
    let mode = arg(args, "--mode").unwrap_or("parse");
    let mut inflight = Inflight::new(arg(args, "--inflight"));
    let mut rng = Rng::new(seed ^ 0x6e6d);
    let mut outs: Vec<Out> = (0..shards).map(|i| Out::create(&format!("{out}.{i}.ndjson"))).collect();
    let mut panics = 0u64;
    let mut count = 0u64;
    let mut per_origin = HashMap::<String, u64>::new();
    if mode == "pow10grid" {
        // every d x 10^e for d in 1..9 and e in -400..400, three spellings
        for e in -400i32..=400 { for d in 1..=9 { for sp in 0..3 {
            let lit = match sp { 0 => format!("{}e{}", d, e), 1 => format!("{}.0E{:+}", d, e), _ => format!("0.{}e{}", d, e + 1) };
            let ev = parse_event(lit.as_bytes(), 0, "pow10grid");
            if ev.to_string().contains("\"panic\":true") { panics += 1; }
            outs[(count % shards) as usize].line(&ev);
            count += 1;
        } } }
    }
    if mode == "pow10write" {
        // d x 10^e as f64 for every d in 1..9, e in -323..308 (and their neighbours): write, read back
        for e in -323i32..=308 { for d in 1..=9u32 { for delta in [0i64, -1, 1] {
            let Ok(p) = format!("{}e{}", d, e).parse::<f64>() else { continue };
            let x = f64::from_bits((p.to_bits() as i64 + delta) as u64);
            if !x.is_finite() { continue; }
            let text = sonic_rs::to_string(&x).unwrap_or_default();
            let y = sonic_rs::from_str::<f64>(&text).ok();
            let dom = sonic_rs::to_value(&x).ok().and_then(|v| v.as_f64());
            let dom_text = sonic_rs::to_value(&x).ok().map(|v| sonic_rs::to_string(&v).unwrap_or_default()).unwrap_or_default();
            let ev = json!({"ev":"write","type":"f64","x":f64_fields(x),"text":bytes_j(text.as_bytes()),"dom_text":bytes_j(dom_text.as_bytes()),
                   "y": match y { Some(y) => { let mut j = f64_fields(y); j["ok"] = json!(true); j } None => json!({"ok":false}) },
                   "dom": match dom { Some(y) => { let mut j = f64_fields(y); j["ok"] = json!(true); j } None => json!({"ok":false}) }});
            outs[(count % shards) as usize].line(&ev);
            count += 1;
        } } }
    }
    for i in 0..(if mode == "pow10grid" || mode == "pow10write" { 0 } else { n }) {
        let ev = if mode == "parse" {
            let (lit, origin) = gen_literal(&mut rng, i);
            inflight.set(i, &lit);
            *per_origin.entry(origin.to_string()).or_default() += 1;
            parse_event(&lit, if rng.chance(1, 3) { rng.below(40) } else { 0 }, origin)
        } else { let e = write_event(&mut rng, i); if e["ev"] == "skip" { continue; } *per_origin.entry(e["type"].as_str().unwrap().to_string()).or_default() += 1; e };
        if ev.to_string().contains("\"panic\":true") { panics += 1; }
        outs[(count % shards) as usize].line(&ev);
        count += 1;
    }
    for o in outs.iter_mut() { o.flush(); }
    println!("{}", json!({"suite":"nm-record","mode":mode,"events":count,"panics":panics,"per_origin":per_origin}));
    0
}

/// exhaustive f32 sweep (C08 thorough): parametric replay of the two-step behaviour Write(x); Read() = x
pub fn f32_sweep(args: &[String]) -> i32 {
    let threads = arg_u64(args, "--threads", 16);
    let stride = arg_u64(args, "--stride", 1) as u32;
    let bad = std::sync::Arc::new(std::sync::Mutex::new(Vec::<u32>::new()));
    let mut hs = Vec::new();
    for t in 0..threads {
        let bad = bad.clone();
        hs.push(std::thread::spawn(move || {
            let mut n = 0u64;
            let chunk = (1u64 << 32) / threads;
            let (lo, hi) = (t * chunk, if t == threads - 1 { 1u64 << 32 } else { (t + 1) * chunk });
            let mut b = lo;
            while b < hi {
                let x = f32::from_bits(b as u32);
                if x.is_finite() {
                    let s = sonic_rs::to_string(&x).unwrap();
                    match sonic_rs::from_str::<f32>(&s) { Ok(y) if y.to_bits() == x.to_bits() => {}, _ => { let mut g = bad.lock().unwrap(); if g.len() < 20 { g.push(b as u32); } } }
                    n += 1;
                }
                b += stride as u64;
            }
            n
        }));
    }
    let mut total: u64 = hs.into_iter().map(|h| h.join().unwrap()).sum();
    // values that every tier visits whatever the stride: the one f32 (and its negation) whose shortest text does not survive
    // reading through f64 and narrowing (double rounding), their neighbours, the extremes
    for b in [0x15ae43fdu32, 0x95ae43fd, 0x15ae43fc, 0x15ae43fe, 0x0000_0001, 0x007f_ffff, 0x0080_0000, 0x7f7f_ffff, 0xff7f_ffff, 0x3f80_0000, 0x3f80_0001, 0x3dcc_cccd, 0x8000_0000, 0] {
        let x = f32::from_bits(b);
        let s = sonic_rs::to_string(&x).unwrap();
        match sonic_rs::from_str::<f32>(&s) { Ok(y) if y.to_bits() == x.to_bits() => {}, _ => { let mut g = bad.lock().unwrap(); if !g.contains(&b) { g.push(b); } } }
        total += 1;
    }
    let bad = bad.lock().unwrap();
    println!("{}", json!({"suite":"f32-sweep","values":total,"bad": bad.iter().map(|b| format!("{:08x}", b)).collect::<Vec<_>>()}));
    0
}
