//! Writer.tla replayed on the real writer stacks (S->I): every call sequence {write_all, reserve_with + fill + flush_len, flush}
//! emitted by TLC is executed through the public `WriteExt` / `io::Write` API of the stack the behaviour names.  Checked after
//! every call: the bytes in the final sink are a prefix of the bytes issued so far (order kept, nothing invented); after a
//! successful flush they are exactly the bytes issued; a call may fail only when the sink is a failing one, and with a sink
//! that cannot hold everything some call up to and including the final flush must fail.
use crate::util::*;
use serde_json::{json, Value as J};
use sonic_rs::writer::{BufferedWriter, WriteExt};
use std::io::Write;

type Sink = std::rc::Rc<std::cell::RefCell<Vec<u8>>>;
struct FailAfter { buf: Sink, limit: usize }
impl Write for FailAfter {
    fn write(&mut self, b: &[u8]) -> std::io::Result<usize> {
        let mut buf = self.buf.borrow_mut();
        if buf.len() >= self.limit && !b.is_empty() { return Err(std::io::Error::new(std::io::ErrorKind::Other, "sink full")); }
        let n = b.len().min(self.limit - buf.len());
        buf.extend_from_slice(&b[..n]);
        Ok(n)
    }
    fn flush(&mut self) -> std::io::Result<()> { Ok(()) }
}
/// a Vec sink whose content stays observable while it sits inside other writers
struct SharedVec(Sink);
impl Write for SharedVec { fn write(&mut self, b: &[u8]) -> std::io::Result<usize> { self.0.borrow_mut().extend_from_slice(b); Ok(b.len()) } fn flush(&mut self) -> std::io::Result<()> { Ok(()) } }
impl WriteExt for SharedVec {
    fn reserve_with(&mut self, additional: usize) -> std::io::Result<&mut [std::mem::MaybeUninit<u8>]> {
        // delegate to the Vec<u8> implementation under test
        let v: &mut Vec<u8> = unsafe { &mut *self.0.as_ptr() };
        v.reserve_with(additional)
    }
    unsafe fn flush_len(&mut self, additional: usize) -> std::io::Result<()> { let v: &mut Vec<u8> = &mut *self.0.as_ptr(); v.flush_len(additional) }
}

fn run_ops<W: WriteExt>(w: &mut W, sink: &Sink, ops: &[J], failing: bool, cap_total: Option<usize>) -> Result<(), String> {
    let mut issued: Vec<u8> = Vec::new();
    let mut any_err = false;
    for (k, op) in ops.iter().enumerate() {
        let bytes: Vec<u8> = op["bytes"].as_array().map(|a| a.iter().map(|x| x.as_u64().unwrap() as u8).collect()).unwrap_or_default();
        let r: std::io::Result<()> = match op["op"].as_str().unwrap() {
            "write" => { issued.extend_from_slice(&bytes); w.write_all(&bytes) }
            "reserve" => {
                issued.extend_from_slice(&bytes);
                // reserve more than needed, fill the front, commit exactly what was filled (as the formatter does)
                (|| { let n = bytes.len(); let spare = w.reserve_with(n + 3)?; if spare.len() < n { return Err(std::io::Error::new(std::io::ErrorKind::Other, "short reserve")); }
                      for (i, b) in bytes.iter().enumerate() { spare[i].write(*b); } unsafe { w.flush_len(n) } })()
            }
            _ => w.flush(),
        };
        let out = sink.borrow().clone();
        if r.is_err() { any_err = true; if !failing { return Err(format!("call {k} ({}) failed on a sink that never fails: {:?}", op["op"], r)); } }
        if !(out.len() <= issued.len() && issued[..out.len()] == out[..]) { return Err(format!("after call {k} ({}) the sink holds {:?}, not a prefix of the bytes issued {:?}", op["op"], out, issued)); }
        if op["op"] == "flush" && r.is_ok() && !any_err && out != issued { return Err(format!("after a successful flush (call {k}) the sink holds {:?} but {:?} was issued", out, issued)); }
    }
    // final flush: everything issued must be there, or some call must have failed
    let r = w.flush();
    let out = sink.borrow().clone();
    if r.is_err() { any_err = true; }
    if !(out.len() <= issued.len() && issued[..out.len()] == out[..]) { return Err(format!("after the final flush the sink holds {:?}, not a prefix of {:?}", out, issued)); }
    if !any_err && out != issued { return Err(format!("every call succeeded but the sink holds {:?} of {:?}", out, issued)); }
    if let Some(cap) = cap_total { if issued.len() > cap && !any_err { return Err(format!("{} bytes were issued to a sink that holds {} and no call failed", issued.len(), cap)); } }
    Ok(())
}

pub fn replay(args: &[String]) -> i32 {
    let beh = std::fs::read_to_string(arg(args, "--beh").expect("--beh")).expect("behaviours");
    let out = arg(args, "--out").expect("--out").to_string();
    let mut mism: Vec<J> = Vec::new();
    let mut per: std::collections::BTreeMap<String, u64> = Default::default();
    let mut n = 0u64;
    for line in beh.lines() {
        let Ok(rec) = serde_json::from_str::<J>(line) else { continue };
        let name = rec["name"].as_str().unwrap().to_string();
        let ops = rec["ops"].as_array().unwrap().clone();
        n += 1;
        *per.entry(name.clone()).or_default() += 1;
        let sink: Sink = Default::default();
        let limit = rec["stack"].as_array().unwrap().iter().find(|l| l["k"] == "sink").map(|l| l["limit"].as_u64().unwrap() as usize);
        let failing = limit.map(|l| l < 50).unwrap_or(false);
        let cap = if failing { limit } else { None };
        let fa = || FailAfter { buf: sink.clone(), limit: limit.unwrap_or(usize::MAX) };
        let r = catch(|| match name.as_str() {
            "vec" => run_ops(&mut SharedVec(sink.clone()), &sink, &ops, false, None),
            "boxref" => { let mut b: Box<SharedVec> = Box::new(SharedVec(sink.clone())); let mut r = &mut b; run_ops(&mut r, &sink, &ops, false, None) }
            "buffered" | "buffered_fail2" | "buffered_fail4" => run_ops(&mut BufferedWriter::new(fa()), &sink, &ops, failing, cap),
            "iobuf_vec" => run_ops(&mut std::io::BufWriter::with_capacity(2, SharedVec(sink.clone())), &sink, &ops, false, None),
            "iobuf_buffered" | "iobuf_buffered_fail3" => run_ops(&mut std::io::BufWriter::with_capacity(2, BufferedWriter::new(fa())), &sink, &ops, failing, cap),
            "ref_iobuf_box_vec" => { let mut w = std::io::BufWriter::with_capacity(3, Box::new(SharedVec(sink.clone()))); let mut r = &mut w; run_ops(&mut r, &sink, &ops, false, None) }
            "iobuf_iobuf_vec" => run_ops(&mut std::io::BufWriter::with_capacity(2, std::io::BufWriter::with_capacity(4, SharedVec(sink.clone()))), &sink, &ops, false, None),
            other => Err(format!("unknown writer stack {other}")),
        });
        let why = match r { Ok(Ok(())) => continue, Ok(Err(e)) => e, Err(p) => format!("panic: {p}") };
        if mism.len() < 40 { mism.push(json!({"suite":"wr-replay","class":"writer","name":name,"ops":ops,"why":format!("{name}: {why}")})); }
    }
    let summary = json!({"suite":"wr-replay","behaviours":n,"per_stack":per,"mismatches":mism});
    std::fs::create_dir_all(&out).ok();
    std::fs::write(format!("{out}/summary.0.json"), serde_json::to_vec(&summary).unwrap()).unwrap();
    0
}
