//! Lazy and owned-lazy values as faithful views of their source text (C13): accessor sets of values obtained in
//! every way, and histories of clone / take / mutation on OwnedLazyValue.  Logged for Trace_Lazy.tla.
use crate::dump::{bytes_j, cps, f64_j, digits};
use crate::jt::Gen;
use crate::lg::{path_j, to_ptr, PE};
use crate::util::*;
use serde_json::{json, Value as J};
use sonic_rs::{JsonContainerTrait, JsonNumberTrait, JsonType, JsonValueMutTrait, JsonValueTrait, LazyValue, OwnedLazyValue, Value};

fn ty(t: JsonType) -> &'static str {
    match t { JsonType::Null => "null", JsonType::Boolean => "bool", JsonType::Number => "num", JsonType::String => "str", JsonType::Array => "arr", JsonType::Object => "obj" }
}
fn num_j(n: &sonic_rs::Number) -> J {
    if n.is_u64() { json!({"t":"num","k":"u64","neg":false,"d":digits(&n.as_u64().unwrap().to_string())}) }
    else if n.is_i64() { let x = n.as_i64().unwrap(); json!({"t":"num","k":"i64","neg":x<0,"d":digits(&x.to_string())}) }
    else { f64_j(n.as_f64().unwrap()) }
}
/// the accessor set of any value implementing the read trait
fn acc<V: JsonValueTrait + std::fmt::Display>(v: &V, ser: Option<String>) -> J {
    let t = v.get_type();
    json!({
        // Display is one more way of writing the value out: it prints the JSON text
        "disp": bytes_j(format!("{}", v).as_bytes()),
        "type": ty(t),
        "is": {"null": v.is_null(), "bool": v.is_boolean(), "num": v.is_number(), "str": v.is_str(), "arr": v.is_array(), "obj": v.is_object()},
        "bool": match v.as_bool() { Some(b) => json!({"some":true,"b":b}), None => json!({"some":false}) },
        "str": match v.as_str() { Some(s) => json!({"some":true,"s":cps(s)}), None => json!({"some":false}) },
        "num": match v.as_number() { Some(n) => json!({"some":true,"n":num_j(&n)}), None => json!({"some":false}) },
        "rawnum": match v.as_raw_number() { Some(r) => json!({"some":true,"raw":bytes_j(r.as_str().as_bytes())}), None => json!({"some":false}) },
        "ser": match ser { Some(s) => json!({"some":true,"b":bytes_j(s.as_bytes())}), None => json!({"some":false}) },
        "panic": false
    })
}
fn guard(f: impl FnOnce() -> J) -> J { catch(f).unwrap_or_else(|p| json!({"panic":true,"msg":p})) }
fn absent() -> J { json!({"absent":true,"panic":false}) }

pub fn acc_event(bytes: &[u8], path: &[PE]) -> J {
    let ptr = to_ptr(path);
    let mut res = serde_json::Map::new();
    res.insert("lv_get".into(), guard(|| match sonic_rs::get(bytes, &ptr) { Ok(lv) => acc(&lv, sonic_rs::to_string(&lv).ok()), Err(_) => absent() }));
    res.insert("lv_pointer".into(), guard(|| match sonic_rs::from_slice::<LazyValue>(bytes) { Ok(lv) => match lv.pointer(&ptr) { Some(x) => acc(&x, sonic_rs::to_string(&x).ok()), None => absent() }, Err(_) => absent() }));
    // clones of a LazyValue taken before and after its decoded form was cached
    res.insert("lv_clone_fresh".into(), guard(|| match sonic_rs::get(bytes, &ptr) { Ok(lv) => { let c = lv.clone(); drop(lv); acc(&c, sonic_rs::to_string(&c).ok()) }, Err(_) => absent() }));
    res.insert("lv_clone_cached".into(), guard(|| match sonic_rs::get(bytes, &ptr) { Ok(lv) => { let _ = lv.as_str().map(|s| s.len()); let c = lv.clone(); drop(lv); acc(&c, sonic_rs::to_string(&c).ok()) }, Err(_) => absent() }));
    res.insert("lv_iter_item".into(), guard(|| {
        // the same value reached as an item of the lazy iterator over its parent
        if path.is_empty() { return json!({"skip":true,"panic":false}); }
        let parent = to_ptr(&path[..path.len() - 1]);
        let Ok(plv) = sonic_rs::get(bytes, &parent) else { return absent() };
        match &path[path.len() - 1] {
            PE::Idx(i) => match plv.clone().into_array_iter().and_then(|mut it| it.nth(*i)) { Some(Ok(x)) => acc(&x, sonic_rs::to_string(&x).ok()), _ => absent() },
            PE::Key(k) => match plv.clone().into_object_iter().and_then(|it| { let mut it = it; it.find(|e| matches!(e, Ok((kk, _)) if kk == k)) }) { Some(Ok((_, x))) => acc(&x, sonic_rs::to_string(&x).ok()), _ => absent() },
        }
    }));
    res.insert("olv_pointer".into(), guard(|| match sonic_rs::from_slice::<OwnedLazyValue>(bytes) { Ok(v) => match v.pointer(&ptr) { Some(x) => acc(x, sonic_rs::to_string(x).ok()), None => absent() }, Err(_) => absent() }));
    res.insert("olv_from_lv".into(), guard(|| match sonic_rs::get(bytes, &ptr) { Ok(lv) => { let o = OwnedLazyValue::from(lv); acc(&o, sonic_rs::to_string(&o).ok()) }, Err(_) => absent() }));
    // borrowed -> owned after the borrowed value (and a clone sharing its cache) has been read: still the raw text
    res.insert("olv_from_lv_read".into(), guard(|| match sonic_rs::get(bytes, &ptr) { Ok(lv) => { let c = lv.clone(); let _ = lv.as_str().map(|s| s.len()); let _ = c.as_str().map(|s| s.len()); let o = OwnedLazyValue::from(lv); drop(c); acc(&o, sonic_rs::to_string(&o).ok()) }, Err(_) => absent() }));
    // an owned lazy value made by serialising a value (to_lazyvalue): its text is the canonical serialisation, not the source span
    res.insert("olv_to_lazyvalue".into(), guard(|| match sonic_rs::from_slice::<sonic_rs::Value>(bytes) { Ok(v) => match sonic_rs::to_lazyvalue(&v) { Ok(o) => match o.pointer(&ptr) { Some(x) => acc(x, sonic_rs::to_string(x).ok()), None => absent() }, Err(_) => absent() }, Err(_) => absent() }));
    res.insert("olv_clone".into(), guard(|| match sonic_rs::from_slice::<OwnedLazyValue>(bytes) { Ok(v) => match v.pointer(&ptr) { Some(x) => { let _ = x.as_str(); let _ = x.get(0usize); let c = x.clone(); acc(&c, sonic_rs::to_string(&c).ok()) }, None => absent() }, Err(_) => absent() }));
    // container views: len through as_array / as_object of a still-raw value
    res.insert("olv_container_len".into(), guard(|| match sonic_rs::from_slice::<OwnedLazyValue>(bytes) { Ok(v) => match v.pointer(&ptr) {
        Some(x) => json!({"panic":false,"arr": match x.as_array() { Some(a) => json!({"some":true,"len":a.len()}), None => json!({"some":false}) },
                          "obj": match x.as_object() { Some(o) => json!({"some":true,"len":o.len()}), None => json!({"some":false}) }}),
        None => absent() }, Err(_) => absent() }));
    // a lazy value that is the element of an iterator (parent path)
    json!({"ev":"acc","b":bytes_j(bytes),"path":path_j(path),"res":res})
}

/// a history of operations on one OwnedLazyValue (and a clone taken on the way)
pub fn hist_event(bytes: &[u8], rng: &mut Rng, paths: &[Vec<PE>]) -> J {
    let texts: &[&str] = &["7", "\"n\"", "[1]", "{\"q\":null}", "true", "-0.5e1"];
    let mut steps = Vec::new();
    let r = catch(|| {
        let mut steps_in = Vec::new();
        let Ok(mut main) = sonic_rs::from_slice::<OwnedLazyValue>(bytes) else { return (steps_in, false); };
        let mut clone: Option<OwnedLazyValue> = None;
        let n = rng.range(1, 5);
        for _ in 0..n {
            let p = rng.pick(paths).clone();
            let ptr = to_ptr(&p);
            let x = *rng.pick(texts);
            let xv: OwnedLazyValue = sonic_rs::from_str(x).unwrap();
            let opk = rng.below(8);
            let (name, applied): (&str, bool) = match opk {
                0 => { clone = Some(main.clone()); ("clone", true) }
                1 => { // read first (fills caches), then nothing
                    let r = main.pointer(&ptr).map(|v| (v.as_str().is_some(), v.get(0usize).is_some(), v.get("a").is_some())); ("read", r.is_some()) }
                2 => ("push", match main.pointer_mut(&ptr).and_then(|t| t.as_array_mut()) { Some(a) => { a.push(xv); true } None => false }),
                3 => ("pop", match main.pointer_mut(&ptr).and_then(|t| t.as_array_mut()) { Some(a) => a.pop().is_some(), None => false }),
                4 => ("append_pair", match main.pointer_mut(&ptr).and_then(|t| t.as_object_mut()) { Some(o) => { o.append_pair("new".into(), xv); true } None => false }),
                5 => ("replace", match main.pointer_mut(&ptr) { Some(t) => { *t = xv; true } None => false }),
                6 => ("take", match main.pointer_mut(&ptr) { Some(t) => { let _ = t.take(); true } None => false }),
                _ => ("get_mut", { let mut cur = Some(&mut main); for e in &p { cur = match (cur, e) { (Some(c), PE::Key(k)) => c.get_mut(k.as_str()), (Some(c), PE::Idx(i)) => c.get_mut(*i), _ => None }; } cur.is_some() }),
            };
            steps_in.push(json!({"op":name,"p":path_j(&p),"x":bytes_j(x.as_bytes()),"applied":applied,
                                 "ser":bytes_j(sonic_rs::to_string(&main).unwrap_or_default().as_bytes()),
                                 "clone": match &clone { Some(c) => json!({"some":true,"ser":bytes_j(sonic_rs::to_string(c).unwrap_or_default().as_bytes())}), None => json!({"some":false}) }}));
        }
        (steps_in, true)
    });
    let (panic, parsed) = match r { Ok((s, ok)) => { steps = s; (J::Bool(false), ok) } Err(p) => (json!(p), false) };
    json!({"ev":"hist","b":bytes_j(bytes),"steps":steps,"parsed":parsed,"panic": !panic.is_boolean(),"msg":panic})
}

fn all_paths(v: &Value, cur: &mut Vec<PE>, out: &mut Vec<Vec<PE>>, depth: usize) {
    out.push(cur.clone());
    if depth > 3 { return; }
    if let Some(a) = v.as_array() { for (i, x) in a.iter().enumerate().take(4) { cur.push(PE::Idx(i)); all_paths(x, cur, out, depth + 1); cur.pop(); } }
    else if let Some(o) = v.as_object() { for (k, x) in o.iter().take(4) { cur.push(PE::Key(k.to_string())); all_paths(x, cur, out, depth + 1); cur.pop(); } }
}

pub fn record(args: &[String]) -> i32 {
    let seed = arg_u64(args, "--seed", 1);
    let n = arg_u64(args, "--n", 1000);
    let out = arg(args, "--out").expect("--out");
    let shards = arg_u64(args, "--shards", 1);
    let mut inflight = Inflight::new(arg(args, "--inflight"));
    let mut rng = Rng::new(seed ^ 0x6c7a);
    let mut outs: Vec<Out> = (0..shards).map(|i| Out::create(&format!("{out}.{i}.ndjson"))).collect();
    let scalars: &[&[u8]] = &[b"true", b"false", b"null", b"0", b"-0", b"12.50", b"1e2", b"\"plain\"", b"\"e\\u0073c\\n\"", b"\"123\"", b"[]", b"{}", b" \"x\" ", b"18446744073709551616", b"\"\\ud83d\\ude00\""];
    let mut panics = 0u64;
    for i in 0..n {
        // well-formed documents only (C13 is about views of well-formed text); duplicate-free is decided by the spec
        let doc: Vec<u8> = if i % 7 == 0 { rng.pick(scalars).to_vec() } else { let mut g = Gen { rng: &mut rng }; g.doc() };
        inflight.set(i, &doc);
        let Ok(Some(parsed)) = catch(|| sonic_rs::from_slice::<Value>(&doc).ok()) else { continue };
        let mut paths = Vec::new();
        all_paths(&parsed, &mut Vec::new(), &mut paths, 0);
        let ev = if i % 3 == 2 { hist_event(&doc, &mut rng, &paths) } else { let p = rng.pick(&paths).clone(); acc_event(&doc, &p) };
        if ev.to_string().contains("\"panic\":true") { panics += 1; }
        outs[(i % shards) as usize].line(&ev);
    }
    for o in outs.iter_mut() { o.flush(); }
    println!("{}", json!({"suite":"lz-record","events":n,"panics":panics}));
    0
}
