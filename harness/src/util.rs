//! Shared plumbing of the conformance harness: deterministic PRNG, crash-isolation
//! marker, panic capture, counting allocator, guard-page buffers.
use std::alloc::{GlobalAlloc, Layout, System};
use std::io::Write;
use std::sync::atomic::{AtomicI64, AtomicU64, Ordering};

pub struct Counting;
pub static LIVE_BYTES: AtomicI64 = AtomicI64::new(0);
pub static LIVE_BLOCKS: AtomicI64 = AtomicI64::new(0);
pub static TOTAL_ALLOCS: AtomicU64 = AtomicU64::new(0);
pub static TRACE_ON: std::sync::atomic::AtomicBool = std::sync::atomic::AtomicBool::new(false);
pub static TRACE_IDX: AtomicU64 = AtomicU64::new(0);
#[allow(clippy::declare_interior_mutable_const)]
const Z: AtomicI64 = AtomicI64::new(0);
pub static TRACE_LOG: [AtomicI64; 8192] = [Z; 8192];
fn trace(sz: i64, p: *mut u8) {
    if TRACE_ON.load(Ordering::Relaxed) {
        let i = TRACE_IDX.fetch_add(2, Ordering::Relaxed) as usize;
        if i + 1 < 8192 { TRACE_LOG[i].store(sz, Ordering::Relaxed); TRACE_LOG[i + 1].store(p as i64, Ordering::Relaxed); }
    }
}
pub fn trace_report() -> Vec<(i64, i64)> {
    let n = (TRACE_IDX.load(Ordering::SeqCst) as usize).min(8192);
    let mut live: Vec<(i64, i64)> = Vec::new();
    let mut i = 0;
    while i + 1 < n { let (sz, p) = (TRACE_LOG[i].load(Ordering::SeqCst), TRACE_LOG[i + 1].load(Ordering::SeqCst)); if sz > 0 { live.push((sz, p)); } else if let Some(k) = live.iter().position(|x| x.1 == p) { live.remove(k); } i += 2; }
    live
}

unsafe impl GlobalAlloc for Counting {
    unsafe fn alloc(&self, l: Layout) -> *mut u8 {
        let p = System.alloc(l);
        if !p.is_null() {
            LIVE_BYTES.fetch_add(l.size() as i64, Ordering::Relaxed);
            LIVE_BLOCKS.fetch_add(1, Ordering::Relaxed);
            TOTAL_ALLOCS.fetch_add(1, Ordering::Relaxed);
            trace(l.size() as i64, p);
        }
        p
    }
    unsafe fn dealloc(&self, p: *mut u8, l: Layout) {
        trace(-(l.size() as i64), p);
        LIVE_BYTES.fetch_sub(l.size() as i64, Ordering::Relaxed);
        LIVE_BLOCKS.fetch_sub(1, Ordering::Relaxed);
        System.dealloc(p, l)
    }
    unsafe fn alloc_zeroed(&self, l: Layout) -> *mut u8 {
        let p = System.alloc_zeroed(l);
        if !p.is_null() {
            LIVE_BYTES.fetch_add(l.size() as i64, Ordering::Relaxed);
            LIVE_BLOCKS.fetch_add(1, Ordering::Relaxed);
            TOTAL_ALLOCS.fetch_add(1, Ordering::Relaxed);
        }
        p
    }
    unsafe fn realloc(&self, p: *mut u8, l: Layout, new: usize) -> *mut u8 {
        let q = System.realloc(p, l, new);
        if !q.is_null() {
            LIVE_BYTES.fetch_add(new as i64 - l.size() as i64, Ordering::Relaxed);
        }
        q
    }
}
pub fn live() -> (i64, i64) {
    (LIVE_BYTES.load(Ordering::SeqCst), LIVE_BLOCKS.load(Ordering::SeqCst))
}

/// xoshiro256** seeded through splitmix64
#[derive(Clone)]
pub struct Rng([u64; 4]);
impl Rng {
    pub fn new(seed: u64) -> Self {
        let mut z = seed.wrapping_add(0x9E3779B97F4A7C15);
        let mut s = [0u64; 4];
        for x in s.iter_mut() {
            z = z.wrapping_add(0x9E3779B97F4A7C15);
            let mut y = z;
            y = (y ^ (y >> 30)).wrapping_mul(0xBF58476D1CE4E5B9);
            y = (y ^ (y >> 27)).wrapping_mul(0x94D049BB133111EB);
            *x = y ^ (y >> 31);
        }
        Rng(s)
    }
    pub fn next(&mut self) -> u64 {
        let s = &mut self.0;
        let r = s[1].wrapping_mul(5).rotate_left(7).wrapping_mul(9);
        let t = s[1] << 17;
        s[2] ^= s[0];
        s[3] ^= s[1];
        s[1] ^= s[2];
        s[0] ^= s[3];
        s[2] ^= t;
        s[3] = s[3].rotate_left(45);
        r
    }
    pub fn below(&mut self, n: usize) -> usize {
        if n == 0 { 0 } else { (self.next() % n as u64) as usize }
    }
    pub fn range(&mut self, lo: usize, hi: usize) -> usize { lo + self.below(hi - lo + 1) }
    pub fn chance(&mut self, num: usize, den: usize) -> bool { self.below(den) < num }
    pub fn pick<'a, T>(&mut self, v: &'a [T]) -> &'a T { &v[self.below(v.len())] }
}

pub fn hex(b: &[u8]) -> String {
    let mut s = String::with_capacity(b.len() * 2);
    for x in b { s.push_str(&format!("{:02x}", x)); }
    s
}
pub fn unhex(s: &str) -> Vec<u8> {
    (0..s.len() / 2).map(|i| u8::from_str_radix(&s[2 * i..2 * i + 2], 16).unwrap()).collect()
}
pub fn lossy(b: &[u8]) -> String { String::from_utf8_lossy(b).into_owned() }

/// File holding the id of the case in flight, so that the driver can attribute a
/// process-killing crash (stack overflow, SIGSEGV on a guard page, abort) to a case.
pub struct Inflight(Option<std::fs::File>);
impl Inflight {
    pub fn new(path: Option<&str>) -> Self {
        Inflight(path.map(|p| std::fs::OpenOptions::new().create(true).write(true).truncate(true).open(p).unwrap()))
    }
    pub fn set(&mut self, id: u64, what: &[u8]) {
        use std::os::unix::fs::FileExt;
        if let Some(f) = &self.0 {
            let mut line = format!("{:020} ", id).into_bytes();
            let h = hex(&what[..what.len().min(2000)]);
            line.extend_from_slice(h.as_bytes());
            line.push(b'\n');
            let _ = f.write_at(&line, 0);
            let _ = f.set_len(line.len() as u64);
        }
    }
}

thread_local! { static LAST_PANIC: std::cell::RefCell<String> = std::cell::RefCell::new(String::new()); }
pub fn install_quiet_panic_hook() {
    std::panic::set_hook(Box::new(|info| {
        let msg = format!("{}", info);
        if msg.contains("unsafe precondition") || msg.contains("misaligned") || msg.contains("null pointer") || std::env::var_os("VH_VERBOSE").is_some() { eprintln!("NON-UNWINDING PANIC: {}", msg); }
        LAST_PANIC.with(|p| *p.borrow_mut() = msg);
    }));
}
/// Run `f`, turning a panic into data.
pub fn catch<T>(f: impl FnOnce() -> T) -> Result<T, String> {
    match std::panic::catch_unwind(std::panic::AssertUnwindSafe(f)) {
        Ok(v) => Ok(v),
        Err(_) => Err(LAST_PANIC.with(|p| p.borrow().clone())),
    }
}

/// A buffer whose last byte is the last byte of a page followed by a PROT_NONE page.
pub struct GuardBuf { base: *mut u8, map_len: usize, ptr: *mut u8, len: usize }
impl GuardBuf {
    pub fn new(data: &[u8]) -> Self {
        unsafe {
            let page = 4096usize;
            let pages = (data.len() + page - 1) / page + 1;
            let map_len = (pages + 1) * page;
            let base = libc::mmap(std::ptr::null_mut(), map_len, libc::PROT_READ | libc::PROT_WRITE,
                                  libc::MAP_PRIVATE | libc::MAP_ANONYMOUS, -1, 0) as *mut u8;
            assert!(base as isize != -1);
            let guard = base.add(pages * page);
            assert_eq!(libc::mprotect(guard as *mut _, page, libc::PROT_NONE), 0);
            let ptr = guard.sub(data.len());
            std::ptr::copy_nonoverlapping(data.as_ptr(), ptr, data.len());
            GuardBuf { base, map_len, ptr, len: data.len() }
        }
    }
    pub fn as_slice(&self) -> &[u8] { unsafe { std::slice::from_raw_parts(self.ptr, self.len) } }
}
impl Drop for GuardBuf {
    fn drop(&mut self) { unsafe { libc::munmap(self.base as *mut _, self.map_len); } }
}

pub struct Out { w: std::io::BufWriter<std::fs::File> }
impl Out {
    pub fn create(path: &str) -> Self { Out { w: std::io::BufWriter::new(std::fs::File::create(path).unwrap()) } }
    pub fn line(&mut self, v: &serde_json::Value) {
        serde_json::to_writer(&mut self.w, v).unwrap();
        self.w.write_all(b"\n").unwrap();
    }
    pub fn flush(&mut self) { self.w.flush().unwrap(); }
}

pub fn arg<'a>(args: &'a [String], name: &str) -> Option<&'a str> {
    args.iter().position(|a| a == name).and_then(|i| args.get(i + 1)).map(|s| s.as_str())
}
pub fn arg_u64(args: &[String], name: &str, default: u64) -> u64 {
    arg(args, name).map(|s| s.parse().unwrap()).unwrap_or(default)
}
