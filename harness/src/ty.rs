//! The C04 / C19 type family: monomorphic Rust types registered under the names the specification (Serde.tla)
//! uses for its type descriptors, with (a) differential deserialization sonic-rs vs serde_json and
//! (b) the conversion square  x -> to_string / to_value -> from_str / from_value.
use crate::dump::{bytes_j, dump_value};
use crate::util::*;
use serde::de::DeserializeOwned;
use serde::{Deserialize, Serialize};
use serde_json::{json, Value as J};
use std::collections::{BTreeMap, HashMap};
use std::fmt::Debug;

#[derive(Serialize, Deserialize, PartialEq, Debug, Clone, Eq, Hash, PartialOrd, Ord)]
pub enum UnitE { Aa, Bb }
#[derive(Serialize, Deserialize, PartialEq, Debug, Clone)]
pub struct SAb { pub a: u8, pub b: Option<String> }
#[derive(Serialize, Deserialize, PartialEq, Debug, Clone)]
#[serde(deny_unknown_fields)]
pub struct SDeny { pub a: u8, #[serde(default)] pub c: Vec<i16> }
#[derive(Serialize, Deserialize, PartialEq, Debug, Clone)]
pub struct SNested { pub n: SAb, pub t: (i8, String), pub u: () }
#[derive(Serialize, Deserialize, PartialEq, Debug, Clone)]
pub enum EnumE { Unit, New(u8), Tup(i8, String), Str { x: bool, y: Option<u8> } }
#[derive(Serialize, Deserialize, PartialEq, Debug, Clone)]
#[serde(untagged)]
pub enum Untagged { N(u8), S(String), P { p: i8 }, L(Vec<u8>) }
#[derive(Serialize, Deserialize, PartialEq, Debug, Clone)]
#[serde(tag = "type")]
pub enum Internal { A { x: u8 }, B { y: String } }
#[derive(Serialize, Deserialize, PartialEq, Debug, Clone)]
#[serde(tag = "t", content = "c")]
pub enum Adjacent { A(u8), B { y: String }, U }
#[derive(Serialize, Deserialize, PartialEq, Debug, Clone)]
pub struct Flat { pub a: u8, #[serde(flatten)] pub rest: BTreeMap<String, i32> }
#[derive(Serialize, Deserialize, PartialEq, Debug, Clone)]
pub struct NewT(pub i32);
#[derive(Serialize, Deserialize, PartialEq, Debug, Clone)]
pub struct Bytes(#[serde(with = "serde_bytes")] pub Vec<u8>);
/// raw numbers (kept as their literal text) as fields and elements
#[derive(Serialize, Deserialize, PartialEq, Debug, Clone)]
pub struct SRaw { pub n: sonic_rs::RawNumber, pub v: Vec<sonic_rs::RawNumber>, pub o: Option<sonic_rs::RawNumber> }
impl Arb for sonic_rs::RawNumber { fn arb(rng: &mut Rng) -> Self { loop { let i = rng.next(); let (lit, _) = crate::nm::gen_literal(rng, i); if lit.len() < 60 { if let Ok(r) = sonic_rs::from_slice::<sonic_rs::RawNumber>(&lit) { return r; } } } } }
impl Arb for SRaw { fn arb(rng: &mut Rng) -> Self { SRaw { n: Arb::arb(rng), v: Arb::arb(rng), o: Arb::arb(rng) } } }
/// an enum with a tuple variant of zero fields (written {"Z":[]})
#[derive(Serialize, Deserialize, PartialEq, Debug, Clone)]
pub enum EnumZ { Z(), W(u8), S {}, N(Option<u8>), U(()), T(Option<u8>, ()) }
impl Arb for EnumZ { fn arb(rng: &mut Rng) -> Self { match rng.below(6) { 0 => EnumZ::Z(), 1 => EnumZ::W(Arb::arb(rng)), 2 => EnumZ::S {}, 3 => EnumZ::N(Arb::arb(rng)), 4 => EnumZ::U(()), _ => EnumZ::T(Arb::arb(rng), ()) } } }
/// a map keyed by floats (no std map can hold them: written and read through the serde map protocol by hand)
#[derive(Debug, Clone)]
pub struct FloatKeyMap(pub Vec<(f64, u8)>);
// a map: equality does not depend on the order of the entries
impl PartialEq for FloatKeyMap { fn eq(&self, o: &Self) -> bool { let key = |v: &Vec<(f64, u8)>| { let mut k: Vec<(u64, u8)> = v.iter().map(|(a, b)| (a.to_bits(), *b)).collect(); k.sort(); k }; key(&self.0) == key(&o.0) } }
impl Serialize for FloatKeyMap { fn serialize<S: serde::Serializer>(&self, s: S) -> Result<S::Ok, S::Error> { use serde::ser::SerializeMap; let mut m = s.serialize_map(Some(self.0.len()))?; for (k, v) in &self.0 { m.serialize_entry(k, v)?; } m.end() } }
impl<'de> Deserialize<'de> for FloatKeyMap { fn deserialize<D: serde::Deserializer<'de>>(d: D) -> Result<Self, D::Error> {
    struct V; impl<'de> serde::de::Visitor<'de> for V { type Value = FloatKeyMap; fn expecting(&self, f: &mut std::fmt::Formatter) -> std::fmt::Result { f.write_str("a map keyed by floats") }
        fn visit_map<A: serde::de::MapAccess<'de>>(self, mut a: A) -> Result<FloatKeyMap, A::Error> { let mut v = Vec::new(); while let Some((k, x)) = a.next_entry::<f64, u8>()? { v.push((k, x)); } Ok(FloatKeyMap(v)) } }
    d.deserialize_map(V) } }
impl Arb for FloatKeyMap { fn arb(rng: &mut Rng) -> Self { let mut v: Vec<(f64, u8)> = Vec::new(); for _ in 0..rng.below(4) { let k = match rng.below(5) { 0 => rng.below(9) as f64 - 4.0, 1 => 1e21, 2 => 2.5e-9, 3 => 0.5, _ => { let x: f64 = Arb::arb(rng); x } }; if !v.iter().any(|(q, _)| q.to_bits() == k.to_bits() || *q == k) { v.push((k, Arb::arb(rng))); } } FloatKeyMap(v) } }
/// types that hold DOM values themselves (conversion square only: serde_json cannot read a sonic_rs::Value)
#[derive(Serialize, Deserialize, PartialEq, Debug, Clone)]
pub struct SWithValue { pub a: u8, pub v: sonic_rs::Value, pub arr: sonic_rs::Array, pub obj: sonic_rs::Object }
impl Arb for sonic_rs::Value { fn arb(rng: &mut Rng) -> Self { loop { let d = { let mut g = crate::jt::Gen { rng }; g.doc() }; if let Ok(v) = sonic_rs::from_slice::<sonic_rs::Value>(&d) { if !has_dup_keys(&v) { return v; } } } } }
fn has_dup_keys(v: &sonic_rs::Value) -> bool {
    use sonic_rs::JsonContainerTrait;
    if let Some(o) = v.as_object() { let mut seen = std::collections::HashSet::new(); for (k, x) in o.iter() { if !seen.insert(k.to_string()) || has_dup_keys(x) { return true; } } false }
    else if let Some(a) = v.as_array() { a.iter().any(has_dup_keys) } else { false }
}
impl Arb for sonic_rs::Number { fn arb(rng: &mut Rng) -> Self { loop { let i = rng.next(); let (lit, _) = crate::nm::gen_literal(rng, i); if let Ok(n) = sonic_rs::from_slice::<sonic_rs::Number>(&lit) { return n; } } } }
/// a struct holding an owned lazy value (compared by its serialisation: it has no equality of its own)
#[derive(Serialize, Deserialize, Debug, Clone)]
pub struct SOlv { pub a: u8, pub l: sonic_rs::OwnedLazyValue, pub v: Vec<sonic_rs::OwnedLazyValue> }
// equality of what the lazy values denote (the DOM route cannot keep the spelling of a number or an escape)
impl PartialEq for SOlv { fn eq(&self, o: &Self) -> bool {
    let den = |x: &dyn Fn() -> Option<String>| x().and_then(|t| sonic_rs::from_str::<sonic_rs::Value>(&t).ok());
    self.a == o.a && den(&|| sonic_rs::to_string(&self.l).ok()) == den(&|| sonic_rs::to_string(&o.l).ok()) && den(&|| sonic_rs::to_string(&self.v).ok()) == den(&|| sonic_rs::to_string(&o.v).ok()) } }
impl Arb for sonic_rs::OwnedLazyValue { fn arb(rng: &mut Rng) -> Self { loop { let d = { let mut g = crate::jt::Gen { rng }; g.doc() }; if sonic_rs::from_slice::<sonic_rs::Value>(&d).map(|v| !has_dup_keys(&v)).unwrap_or(false) { if let Ok(v) = sonic_rs::from_slice::<sonic_rs::OwnedLazyValue>(&d) { return v; } } } } }
impl Arb for SOlv { fn arb(rng: &mut Rng) -> Self { SOlv { a: Arb::arb(rng), l: Arb::arb(rng), v: Arb::arb(rng) } } }
// serde_json's own DOM as a member of the family: it goes through deserialize_any on both routes
#[derive(Serialize, Deserialize, PartialEq, Debug, Clone)]
pub struct SjValue(pub serde_json::Value);
impl Arb for SjValue { fn arb(rng: &mut Rng) -> Self { loop { let d = { let mut g = crate::jt::Gen { rng }; g.doc() }; if let Ok(v) = serde_json::from_slice::<serde_json::Value>(&d) { return SjValue(v); } } } }
impl Arb for SWithValue { fn arb(rng: &mut Rng) -> Self {
    use sonic_rs::JsonValueTrait;
    let arr = loop { let v = sonic_rs::Value::arb(rng); if v.is_array() { break v.into_array().unwrap(); } if rng.chance(1, 3) { break sonic_rs::Array::new(); } };
    let obj = loop { let v = sonic_rs::Value::arb(rng); if v.is_object() { break v.into_object().unwrap(); } if rng.chance(1, 3) { break sonic_rs::Object::new(); } };
    SWithValue { a: Arb::arb(rng), v: Arb::arb(rng), arr, obj } } }
fn de_none(_: &[u8]) -> J { json!({"panic":false,"sonic_ok":true,"sj_ok":true,"equal":true,"str_agrees":true,"sonic":"","sj":""}) }
/// a position whose content is ignored (IgnoredAny): any well-formed value is accepted, nothing else
#[derive(Debug, Clone)]
pub struct Ign;
impl PartialEq for Ign { fn eq(&self, _: &Ign) -> bool { true } }
impl<'de> Deserialize<'de> for Ign { fn deserialize<D: serde::Deserializer<'de>>(d: D) -> Result<Self, D::Error> { serde::de::IgnoredAny::deserialize(d).map(|_| Ign) } }
#[derive(Deserialize, PartialEq, Debug, Clone)]
pub struct SBytes { pub a: serde_bytes::ByteBuf, pub s: String, pub b: serde_bytes::ByteBuf }
#[derive(Deserialize, PartialEq, Debug)]
pub struct Borrow<'a> { #[serde(borrow)] pub s: std::borrow::Cow<'a, str>, pub k: &'a str }

// ---- arbitrary values of the family (for the conversion square) ----
pub trait Arb: Sized { fn arb(rng: &mut Rng) -> Self; }
macro_rules! arb_int { ($($t:ty),*) => { $(impl Arb for $t { fn arb(rng: &mut Rng) -> Self { match rng.below(4) { 0 => <$t>::MIN, 1 => <$t>::MAX, 2 => 0 as $t, _ => (rng.next() as $t) >> rng.below(<$t>::BITS as usize) } } })* } }
arb_int!(u8, i8, u16, i16, u32, i32, u64, i64);
impl Arb for u128 { fn arb(rng: &mut Rng) -> Self { match rng.below(6) { 0 => u128::MAX, 1 => 0, 2 => u64::MAX as u128 - 1 + rng.below(3) as u128, 4 => i64::MAX as u128 - 1 + rng.below(3) as u128, 5 => rng.next() as u128, _ => ((rng.next() as u128) << 64 | rng.next() as u128) >> rng.below(128) } } }
impl Arb for i128 { fn arb(rng: &mut Rng) -> Self { match rng.below(8) { 0 => i128::MAX, 1 => i128::MIN, 2 => 0, 3 => i64::MIN as i128 - rng.below(3) as i128 + 1, 5 => u64::MAX as i128 - 1 + rng.below(3) as i128, 6 => i64::MAX as i128 - 1 + rng.below(3) as i128, 7 => rng.next() as i128, _ => (((rng.next() as u128) << 64 | rng.next() as u128) >> rng.below(128)) as i128 } } }
impl Arb for bool { fn arb(rng: &mut Rng) -> Self { rng.chance(1, 2) } }
impl Arb for f64 { fn arb(rng: &mut Rng) -> Self { match rng.below(6) { 0 => 0.0, 1 => -0.0, 2 => f64::MAX, 3 => 5e-324, 4 => (rng.below(4000) as f64 - 2000.0) / 16.0, _ => { let x = f64::from_bits(rng.next()); if x.is_finite() { x } else { 1.5 } } } } }
impl Arb for f32 { fn arb(rng: &mut Rng) -> Self { match rng.below(4) { 0 => 0.0, 1 => 0.1, 2 => (rng.below(400) as f32 - 200.0) / 8.0, _ => { let x = f32::from_bits(rng.next() as u32); if x.is_finite() { x } else { 2.5 } } } } }
impl Arb for char { fn arb(rng: &mut Rng) -> Self { *rng.pick(&['a', 'Z', '"', '\\', '\n', '\u{0}', 'é', '中', '😀', '\u{10ffff}']) } }
impl Arb for String { fn arb(rng: &mut Rng) -> Self { crate::sr::gen_string(rng).chars().take(rng.below(40)).collect() } }
impl Arb for () { fn arb(_: &mut Rng) -> Self {} }
impl<T: Arb> Arb for Option<T> { fn arb(rng: &mut Rng) -> Self { if rng.chance(1, 3) { None } else { Some(T::arb(rng)) } } }
impl<T: Arb> Arb for Vec<T> { fn arb(rng: &mut Rng) -> Self { (0..rng.below(4)).map(|_| T::arb(rng)).collect() } }
impl<A: Arb, B: Arb> Arb for (A, B) { fn arb(rng: &mut Rng) -> Self { (A::arb(rng), B::arb(rng)) } }
impl<A: Arb, B: Arb, C: Arb> Arb for (A, B, C) { fn arb(rng: &mut Rng) -> Self { (A::arb(rng), B::arb(rng), C::arb(rng)) } }
impl<K: Arb + Ord, V: Arb> Arb for BTreeMap<K, V> { fn arb(rng: &mut Rng) -> Self { (0..rng.below(4)).map(|_| (K::arb(rng), V::arb(rng))).collect() } }
impl<K: Arb + Eq + std::hash::Hash, V: Arb> Arb for HashMap<K, V> { fn arb(rng: &mut Rng) -> Self { (0..rng.below(4)).map(|_| (K::arb(rng), V::arb(rng))).collect() } }
impl Arb for UnitE { fn arb(rng: &mut Rng) -> Self { if rng.chance(1, 2) { UnitE::Aa } else { UnitE::Bb } } }
impl Arb for SAb { fn arb(rng: &mut Rng) -> Self { SAb { a: Arb::arb(rng), b: Arb::arb(rng) } } }
impl Arb for SDeny { fn arb(rng: &mut Rng) -> Self { SDeny { a: Arb::arb(rng), c: Arb::arb(rng) } } }
impl Arb for SNested { fn arb(rng: &mut Rng) -> Self { SNested { n: Arb::arb(rng), t: Arb::arb(rng), u: () } } }
impl Arb for EnumE { fn arb(rng: &mut Rng) -> Self { match rng.below(4) { 0 => EnumE::Unit, 1 => EnumE::New(Arb::arb(rng)), 2 => EnumE::Tup(Arb::arb(rng), Arb::arb(rng)), _ => EnumE::Str { x: Arb::arb(rng), y: Arb::arb(rng) } } } }
impl Arb for Untagged { fn arb(rng: &mut Rng) -> Self { match rng.below(4) { 0 => Untagged::N(Arb::arb(rng)), 1 => Untagged::S(Arb::arb(rng)), 2 => Untagged::P { p: Arb::arb(rng) }, _ => Untagged::L(Arb::arb(rng)) } } }
impl Arb for Internal { fn arb(rng: &mut Rng) -> Self { if rng.chance(1, 2) { Internal::A { x: Arb::arb(rng) } } else { Internal::B { y: Arb::arb(rng) } } } }
impl Arb for Adjacent { fn arb(rng: &mut Rng) -> Self { match rng.below(3) { 0 => Adjacent::A(Arb::arb(rng)), 1 => Adjacent::B { y: Arb::arb(rng) }, _ => Adjacent::U } } }
impl Arb for Flat { fn arb(rng: &mut Rng) -> Self { Flat { a: Arb::arb(rng), rest: (0..rng.below(3)).map(|i| (format!("r{i}"), Arb::arb(rng))).collect() } } }
impl Arb for NewT { fn arb(rng: &mut Rng) -> Self { NewT(Arb::arb(rng)) } }
impl Arb for Bytes { fn arb(rng: &mut Rng) -> Self { Bytes(Arb::arb(rng)) } }

pub struct TyEntry {
    pub name: &'static str,
    /// differential deserialization: (sonic from_slice, sonic from_str, serde_json from_slice)
    pub de: fn(&[u8]) -> J,
    /// the conversion square on an arbitrary value (None for types that are only deserialized)
    pub conv: Option<fn(&mut Rng) -> J>,
    /// a text of the type's shape for types without a conversion square
    pub gen: Option<fn(&mut Rng) -> Vec<u8>>,
}

/// a JSON string literal with arbitrary content bytes (possibly not UTF-8, possibly escapes incl. lone surrogates)
fn blob(rng: &mut Rng) -> Vec<u8> {
    let mut v = vec![b'"'];
    for _ in 0..rng.below(6) {
        match rng.below(8) {
            0 => v.push(0xff), 1 => v.extend_from_slice(&[0xc3, 0x28]), 2 => v.extend_from_slice(&[0xe2, 0x82]), 3 => v.extend_from_slice("é中".as_bytes()),
            4 => v.extend_from_slice(b"\\n\\u0041"), 5 if rng.chance(1, 4) => v.extend_from_slice(b"\\ud800"), 6 => v.push(0x80 + rng.below(64) as u8), _ => v.push(b'a' + rng.below(26) as u8),
        }
    }
    v.push(b'"');
    v
}
fn plain_str(rng: &mut Rng) -> Vec<u8> { let mut v = vec![b'"']; for _ in 0..rng.below(5) { v.push(b'a' + rng.below(26) as u8); } if rng.chance(1, 4) { v.extend_from_slice("é".as_bytes()); } v.push(b'"'); v }
fn gen_vec_bytes(rng: &mut Rng) -> Vec<u8> { let mut v = vec![b'[']; let n = rng.below(5); for i in 0..n { if i > 0 { v.push(b','); } if rng.chance(1, 5) { v.extend_from_slice(b"[1,2]"); } else { v.extend(blob(rng)); } } v.push(b']'); v }
fn gen_sbytes(rng: &mut Rng) -> Vec<u8> {
    let mut parts: Vec<Vec<u8>> = vec![[b"\"a\":".to_vec(), blob(rng)].concat(), [b"\"s\":".to_vec(), plain_str(rng)].concat(), [b"\"b\":".to_vec(), blob(rng)].concat()];
    if rng.chance(1, 3) { let i = rng.below(3); let p = parts.remove(i); parts.push(p); }
    if rng.chance(1, 3) { parts.insert(rng.below(3), [b"\"zz\":".to_vec(), blob(rng)].concat()); }
    let mut v = vec![b'{']; for (i, p) in parts.iter().enumerate() { if i > 0 { v.push(b','); } v.extend_from_slice(p); } v.push(b'}'); v
}
fn gen_tup_bytes(rng: &mut Rng) -> Vec<u8> { [b"[".to_vec(), blob(rng), b",".to_vec(), plain_str(rng), b",".to_vec(), blob(rng), b"]".to_vec()].concat() }
fn gen_map_bytes(rng: &mut Rng) -> Vec<u8> { let mut v = vec![b'{']; for i in 0..rng.below(4) { if i > 0 { v.push(b','); } v.extend(plain_str(rng)); v.push(b':'); v.extend(blob(rng)); } v.push(b'}'); v }
fn gen_borrow(rng: &mut Rng) -> Vec<u8> { [b"{\"s\":".to_vec(), if rng.chance(1, 2) { plain_str(rng) } else { b"\"a\\nb\"".to_vec() }, b",\"k\":".to_vec(), plain_str(rng), b"}".to_vec()].concat() }
fn gen_any(rng: &mut Rng) -> Vec<u8> { let mut g = crate::jt::Gen { rng }; g.doc() }

/// values that are wrong in a way a skipper that only counts brackets and quotes does not see, and right ones
pub const JUNK: &[&[u8]] = &[b"[1 2]", b"[1,]", b"{\"k\" 1}", b"{1:2}", b"01", b"1x", b"\"\\q\"", b"\"a\x01b\"", b"[tru]", b"nul", b"-", b"1.", b"[,1]", b"{\"a\":1,}", b"{\"a\"}", b"[1:2]",
    b"\"\\ud800\"", b"\"\xff\"", b"tr", b"[\"a\" \"b\"]", b"{\"a\":[}]}", b"1e", b"+1", b"[1,2]", b"{\"q\":null}", b"\"ok\"", b"1.5e3", b"[[],{}]", b"\"\\u00e9\\n\""];
/// scale: the members of the outermost container repeated a few hundred times (a long sequence / a map with repeated names);
/// whether that is acceptable for the type is decided by serde_json like everything else
pub fn repeat_members(rng: &mut Rng, text: &[u8]) -> Option<Vec<u8>> {
    let (open, close) = (*text.first()?, *text.last()?);
    if !((open == b'[' && close == b']') || (open == b'{' && close == b'}')) || text.len() < 3 || text.len() > 200 { return None; }
    let inner = &text[1..text.len() - 1];
    let times = *rng.pick(&[130usize, 254, 255, 256, 300, 520]);
    let mut v = vec![open];
    for i in 0..times { if i > 0 { v.push(b','); } v.extend_from_slice(inner); }
    v.push(close);
    Some(v)
}
/// insert a member with an unknown name whose value is taken from JUNK into some object of the text
pub fn inject_unknown(rng: &mut Rng, text: &[u8]) -> Option<Vec<u8>> {
    let opens: Vec<usize> = text.iter().enumerate().filter(|(_, b)| **b == b'{').map(|(i, _)| i).collect();
    if opens.is_empty() { return None; }
    let i = *rng.pick(&opens);
    let junk = *rng.pick(JUNK);
    let empty = text.get(i + 1) == Some(&b'}');
    let mut v = text[..=i].to_vec();
    v.extend_from_slice(b"\"zz\":"); v.extend_from_slice(junk);
    if !empty { v.push(b','); }
    v.extend_from_slice(&text[i + 1..]);
    Some(v)
}

fn de_cmp<T: DeserializeOwned + PartialEq + Debug>(b: &[u8]) -> J {
    let so = catch(|| sonic_rs::from_slice::<T>(b));
    let ss = match std::str::from_utf8(b) { Ok(s) => Some(catch(|| sonic_rs::from_str::<T>(s))), Err(_) => None };
    let sj = catch(|| serde_json::from_slice::<T>(b));
    let (Ok(so), Ok(sj)) = (so, sj) else { return json!({"panic":true}) };
    let equal = match (&so, &sj) { (Ok(a), Ok(b)) => Some(a == b), _ => None };
    let str_agrees = match &ss { Some(Ok(r)) => match (&so, r) { (Ok(a), Ok(b)) => a == b, (Err(_), Err(_)) => true, _ => false }, Some(Err(_)) => false, None => true };
    json!({"panic":false,"sonic_ok":so.is_ok(),"sj_ok":sj.is_ok(),"equal":equal.unwrap_or(true),"str_agrees":str_agrees,
           "sonic": format!("{:?}", so.as_ref().map_err(|e| e.to_string())).chars().take(120).collect::<String>(),
           "sj": format!("{:?}", sj.as_ref().map_err(|e| e.to_string())).chars().take(120).collect::<String>()})
}
fn de_cmp_borrow(b: &[u8]) -> J {
    let so = catch(|| sonic_rs::from_slice::<Borrow>(b).map(|x| (x.s.to_string(), matches!(x.s, std::borrow::Cow::Borrowed(_)), x.k.to_string())));
    let sj = catch(|| serde_json::from_slice::<Borrow>(b).map(|x| (x.s.to_string(), matches!(x.s, std::borrow::Cow::Borrowed(_)), x.k.to_string())));
    let (Ok(so), Ok(sj)) = (so, sj) else { return json!({"panic":true}) };
    let equal = match (&so, &sj) { (Ok(a), Ok(b)) => Some(a == b), _ => None };
    json!({"panic":false,"sonic_ok":so.is_ok(),"sj_ok":sj.is_ok(),"equal":equal.unwrap_or(true),"str_agrees":true,
           "sonic": format!("{:?}", so.as_ref().map_err(|e| e.to_string())).chars().take(120).collect::<String>(),
           "sj": format!("{:?}", sj.as_ref().map_err(|e| e.to_string())).chars().take(120).collect::<String>()})
}
/// x -> to_string -> from_str ; x -> to_value -> from_value ; to_value(x) vs parse(to_string(x))
fn conv<T: Arb + Serialize + DeserializeOwned + PartialEq + Debug>(rng: &mut Rng) -> J {
    let x = T::arb(rng);
    let r = catch(|| {
        let s = sonic_rs::to_string(&x);
        let v = sonic_rs::to_value(&x);
        let back_text = s.as_ref().ok().map(|s| sonic_rs::from_str::<T>(s).map(|y| y == x).map_err(|e| e.to_string()));
        let back_dom = v.as_ref().ok().map(|v| sonic_rs::from_value::<T>(v).map(|y| y == x).map_err(|e| e.to_string()));
        let sj_text = serde_json::to_string(&x).ok();
        json!({"x": format!("{:?}", x).chars().take(160).collect::<String>(),
               "text": match &s { Ok(s) => json!({"ok":true,"b":bytes_j(s.as_bytes())}), Err(e) => json!({"ok":false,"err":e.to_string()}) },
               "dom": match &v { Ok(v) => json!({"ok":true,"dump":dump_value(v).unwrap_or_else(|e| json!({"t":"inconsistent","why":e})),
                                                 "eq_parsed": s.as_ref().ok().and_then(|s| sonic_rs::from_str::<sonic_rs::Value>(s).ok()).map(|p| (p == *v, *v == p)).unwrap_or((false, false))}), Err(e) => json!({"ok":false,"err":e.to_string()}) },
               "back_text": match back_text { Some(Ok(b)) => json!({"ok":true,"same":b}), Some(Err(e)) => json!({"ok":false,"err":e}), None => json!({"ok":false,"err":"no text"}) },
               "back_dom": match back_dom { Some(Ok(b)) => json!({"ok":true,"same":b}), Some(Err(e)) => json!({"ok":false,"err":e}), None => json!({"ok":false,"err":"no dom"}) },
               "sj_text_same": match (&s, &sj_text) { (Ok(a), Some(b)) => json!(a == b), _ => J::Bool(false) },
               "panic": false})
    });
    r.unwrap_or_else(|p| json!({"panic":true,"msg":p}))
}
macro_rules! ty { ($name:expr, $t:ty) => { TyEntry { name: $name, de: de_cmp::<$t>, conv: Some(conv::<$t>), gen: None } }; }
macro_rules! tyg { ($name:expr, $t:ty, $g:expr) => { TyEntry { name: $name, de: de_cmp::<$t>, conv: None, gen: Some($g) } }; }

pub fn registry() -> Vec<TyEntry> {
    vec![
        ty!("bool", bool), ty!("u8", u8), ty!("i8", i8), ty!("u16", u16), ty!("i16", i16), ty!("u32", u32), ty!("i32", i32), ty!("u64", u64), ty!("i64", i64),
        ty!("u128", u128), ty!("i128", i128), ty!("f64", f64), ty!("f32", f32), ty!("char", char), ty!("string", String), ty!("unit", ()),
        ty!("opt_u8", Option<u8>), ty!("opt_string", Option<String>), ty!("vec_u8", Vec<u8>), ty!("vec_string", Vec<String>), ty!("vec_opt_i16", Vec<Option<i16>>),
        ty!("tup_u8_string", (u8, String)), ty!("tup3", (bool, i64, Option<f64>)),
        ty!("map_string_u8", BTreeMap<String, u8>), ty!("hmap_string_vec", HashMap<String, Vec<u8>>), ty!("map_i32_bool", BTreeMap<i32, bool>), ty!("map_u64_u8", BTreeMap<u64, u8>),
        ty!("map_i128_u8", BTreeMap<i128, u8>), ty!("map_bool_u8", BTreeMap<bool, u8>), ty!("map_char_u8", BTreeMap<char, u8>), ty!("map_unitenum_u8", BTreeMap<UnitE, u8>),
        ty!("struct_ab", SAb), ty!("struct_deny", SDeny), ty!("struct_nested", SNested), ty!("newtype_i32", NewT),
        ty!("unit_enum", UnitE), ty!("enum_e", EnumE), ty!("vec_enum_e", Vec<EnumE>),
        ty!("enum_z", EnumZ), ty!("vec_enum_z", Vec<EnumZ>), ty!("map_f64_u8", FloatKeyMap), ty!("untagged", Untagged), ty!("internal", Internal), ty!("adjacent", Adjacent), ty!("flatten", Flat), ty!("bytes", Bytes),
        TyEntry { name: "borrow", de: de_cmp_borrow, conv: None, gen: Some(gen_borrow) },
        // conversion square only (skipped by the differential suites: name starts with "dom_")
        TyEntry { name: "dom_value", de: de_none, conv: Some(conv::<sonic_rs::Value>), gen: None },
        TyEntry { name: "dom_struct_with_value", de: de_none, conv: Some(conv::<SWithValue>), gen: None },
        TyEntry { name: "dom_vec_value", de: de_none, conv: Some(conv::<Vec<sonic_rs::Value>>), gen: None },
        TyEntry { name: "dom_serde_json_value", de: de_none, conv: Some(conv::<SjValue>), gen: None },
        TyEntry { name: "dom_struct_ownedlazy", de: de_none, conv: Some(conv::<SOlv>), gen: None },
        TyEntry { name: "dom_rawnumber", de: de_none, conv: Some(conv::<sonic_rs::RawNumber>), gen: None },
        TyEntry { name: "dom_struct_raw", de: de_none, conv: Some(conv::<SRaw>), gen: None },
        TyEntry { name: "dom_number", de: de_none, conv: Some(conv::<Vec<sonic_rs::Number>>), gen: None },
        tyg!("ignored", Ign, gen_any), tyg!("vec_ignored", Vec<Ign>, gen_any), tyg!("map_string_ignored", BTreeMap<String, Ign>, gen_any),
        tyg!("vec_bytebuf", Vec<serde_bytes::ByteBuf>, gen_vec_bytes), tyg!("struct_bytes", SBytes, gen_sbytes),
        tyg!("tup_bytes", (serde_bytes::ByteBuf, String, serde_bytes::ByteBuf), gen_tup_bytes), tyg!("map_string_bytebuf", BTreeMap<String, serde_bytes::ByteBuf>, gen_map_bytes),
    ]
}

/// S->I: (type name, json text, spec verdict) triples emitted by TLC
pub fn replay(args: &[String]) -> i32 {
    let beh = std::fs::read_to_string(arg(args, "--beh").expect("--beh")).expect("behaviours");
    let outdir = arg(args, "--out").expect("--out").to_string();
    let reg = registry();
    let mut mism = Vec::new();
    let mut model_errors = Vec::new();
    let (mut n, mut accepted) = (0u64, 0u64);
    let mut per_type = std::collections::BTreeMap::<String, u64>::new();
    let mut samples = Vec::new();
    for (li, line) in beh.lines().enumerate() {
        if line.is_empty() { continue; }
        let rec: J = serde_json::from_str(line).unwrap();
        let name = rec["ty"].as_str().unwrap();
        let text: Vec<u8> = rec["text"].as_array().unwrap().iter().map(|x| x.as_u64().unwrap() as u8).collect();
        let Some(e) = reg.iter().find(|e| e.name == name) else { model_errors.push(json!({"why": format!("type {name} is not registered in the harness")})); continue };
        n += 1;
        *per_type.entry(name.to_string()).or_default() += 1;
        let r = (e.de)(&text);
        let ctx = || json!({"suite":"ty-replay","ty":name,"text":String::from_utf8_lossy(&text),"bytes_lossy":String::from_utf8_lossy(&text),"res":r.clone(),"line":li});
        if r["panic"] == true { let mut c = ctx(); c["class"] = json!("panic"); c["why"] = json!("panic while deserializing"); mism.push(c); continue; }
        if r["sonic_ok"] == true { accepted += 1; }
        // the property: sonic-rs agrees with serde_json on accept/reject and on the value
        if r["sonic_ok"] != r["sj_ok"] || r["equal"] == false || r["str_agrees"] == false {
            if mism.len() < 60 { let mut c = ctx(); c["class"] = json!("diff"); c["why"] = json!(format!("{}: sonic {} vs serde_json {}", name, r["sonic"], r["sj"])); mism.push(c); }
        }
        // the model must agree with serde_json (otherwise the model misrepresents the contract: tool error)
        if let Some(want) = rec["accept"].as_bool() { if r["sj_ok"].as_bool() != Some(want) && model_errors.len() < 20 { model_errors.push(json!({"ty":name,"text":String::from_utf8_lossy(&text),"spec":want,"serde_json":r["sj"]})); } }
        if samples.len() < 4 && li % 997 == 5 { samples.push(json!({"ty":name,"text":String::from_utf8_lossy(&text),"accept":rec["accept"],"sonic":r["sonic"]})); }
    }
    let summary = json!({"suite":"ty-replay","cases":n,"accepted":accepted,"per_type":per_type,"mismatches":mism,"model_errors":model_errors,"samples":samples});
    std::fs::write(format!("{outdir}/summary.0.json"), serde_json::to_vec(&summary).unwrap()).unwrap();
    0
}

/// pairs of documents for the equality laws
fn eq_event(rng: &mut Rng) -> Option<J> {
    // documents with repeated member names: equality must still be reflexive and symmetric
    if rng.chance(1, 6) {
        let pool: &[&str] = &["{\"a\":1,\"a\":2}", "{\"a\":1,\"b\":3}", "{\"a\":2,\"a\":1}", "{\"a\":1}", "{\"b\":3,\"a\":1}", "{\"a\":1,\"a\":1}", "[{\"k\":null,\"k\":0},{\"k\":0}]", "[{\"k\":0,\"j\":1},{\"k\":0}]", "{\"x\":{\"a\":1,\"a\":2},\"y\":0}", "{\"x\":{\"a\":1,\"c\":2},\"y\":0}"];
        let (a, b) = (rng.pick(pool).as_bytes().to_vec(), rng.pick(pool).as_bytes().to_vec());
        let va: sonic_rs::Value = sonic_rs::from_slice(&a).ok()?;
        let vb: sonic_rs::Value = sonic_rs::from_slice(&b).ok()?;
        return Some(json!({"ev":"eq","a":bytes_j(&a),"b":bytes_j(&b),"ab": va == vb, "ba": vb == va, "aa": va == va.clone(), "bb": vb == vb.clone(),
                "da": dump_value(&va).ok()?, "db": dump_value(&vb).ok()?}));
    }
    let a = { let mut g = crate::jt::Gen { rng }; g.doc() };
    let va: sonic_rs::Value = sonic_rs::from_slice(&a).ok()?;
    let b: Vec<u8> = match rng.below(4) {
        0 => a.clone(),
        1 => serde_json::to_vec(&serde_json::from_slice::<J>(&a).ok()?).ok()?,            // members re-ordered (sorted), same content when names are unique
        2 => { let mut g = crate::jt::Gen { rng }; g.doc() }
        _ => { let s = serde_json::to_string(&serde_json::from_slice::<J>(&a).ok()?).ok()?; s.replacen("1", "2", 1).into_bytes() }
    };
    let vb: sonic_rs::Value = sonic_rs::from_slice(&b).ok()?;
    Some(json!({"ev":"eq","a":bytes_j(&a),"b":bytes_j(&b),"ab": va == vb, "ba": vb == va, "aa": va == va.clone(), "bb": vb == vb.clone(),
                "da": dump_value(&va).ok()?, "db": dump_value(&vb).ok()?}))
}

/// equality of a DOM value with a Rust primitive (C19: "agrees with comparison of primitives")
fn eqprim_event(rng: &mut Rng) -> Option<J> {
    #[derive(Clone, Debug)]
    enum P { I(i64), U(u64), F(f64), B(bool), S(String), V(Vec<i64>) }
    fn gen(rng: &mut Rng, kind: usize) -> P {
        match kind { 0 => P::I(if rng.chance(1, 3) { rng.below(5) as i64 - 2 } else { Arb::arb(rng) }), 1 => P::U(if rng.chance(1, 3) { rng.below(4) as u64 } else { Arb::arb(rng) }),
                     2 => P::F(if rng.chance(1, 3) { (rng.below(9) as f64 - 4.0) / 2.0 } else { Arb::arb(rng) }), 3 => P::B(Arb::arb(rng)),
                     4 => P::S(if rng.chance(1, 3) { rng.pick(&["", "a", "1", "true", "null"]).to_string() } else { Arb::arb(rng) }),
                     _ => P::V((0..rng.below(5)).map(|_| rng.below(4) as i64).collect()) }
    }
    fn text(p: &P) -> String { match p { P::I(x) => sonic_rs::to_string(x), P::U(x) => sonic_rs::to_string(x), P::F(x) => sonic_rs::to_string(x), P::B(x) => sonic_rs::to_string(x), P::S(x) => sonic_rs::to_string(x), P::V(x) => sonic_rs::to_string(x) }.unwrap_or_default() }
    fn tv(p: &P) -> Option<sonic_rs::Value> { match p { P::I(x) => sonic_rs::to_value(x), P::U(x) => sonic_rs::to_value(x), P::F(x) => sonic_rs::to_value(x), P::B(x) => sonic_rs::to_value(x), P::S(x) => sonic_rs::to_value(x), P::V(x) => sonic_rs::to_value(x) }.ok() }
    // (v == p, p == v) for the Rust primitive inside p
    fn cmp(v: &sonic_rs::Value, p: &P) -> (bool, bool) { match p { P::I(x) => (*v == *x, *x == *v), P::U(x) => (*v == *x, *x == *v), P::F(x) => (*v == *x, *x == *v), P::B(x) => (*v == *x, *x == *v), P::S(x) => (*v == *x && *v == x.as_str(), *x == *v && x.as_str() == *v),
        // a DOM array against a Vec, a slice and (for length 2) a fixed-size array of primitives
        P::V(x) => { let sl: &[i64] = &x[..]; let mut a = *v == *x && *v == sl; let mut b = *x == *v && sl == *v;
                     if x.len() == 2 { let arr2: [i64; 2] = [x[0], x[1]]; a = a && *v == arr2; b = b && arr2 == *v; }
                     (a, b) } } }
    fn peq(a: &P, b: &P) -> bool { match (a, b) { (P::I(x), P::I(y)) => x == y, (P::U(x), P::U(y)) => x == y, (P::F(x), P::F(y)) => x == y, (P::B(x), P::B(y)) => x == y, (P::S(x), P::S(y)) => x == y, (P::V(x), P::V(y)) => x == y, _ => false } }
    let kinds = ["i64", "u64", "f64", "bool", "str", "vec"];
    let k = rng.below(6);
    let p = gen(rng, k);
    // for vectors: often a proper prefix or an extension of p
    let near = |rng: &mut Rng, p: &P| -> Option<P> { if let P::V(x) = p { let mut y = x.clone(); if rng.chance(1, 2) { y.pop(); } else { y.push(rng.below(4) as i64); } Some(P::V(y)) } else { None } };
    let q = if rng.chance(1, 4) { p.clone() } else if let (true, Some(n)) = (rng.chance(1, 2), near(rng, &p)) { n } else { gen(rng, k) };
    let rk = if rng.chance(1, 2) { k } else { rng.below(6) };
    let r = if rng.chance(1, 3) && rk == k { p.clone() } else if let (true, true, Some(n)) = (rk == k, rng.chance(1, 2), near(rng, &p)) { n } else { gen(rng, rk) };
    let (pt, rt) = (text(&p), text(&r));
    let v1 = tv(&p)?;
    let v2: sonic_rs::Value = sonic_rs::from_str(&pt).ok()?;
    let v3: sonic_rs::Value = sonic_rs::from_str(&rt).ok()?;
    // the same primitive turned into a DOM value by From / json! instead of to_value
    fn built(p: &P) -> (sonic_rs::Value, sonic_rs::Value) { match p {
        P::I(x) => (sonic_rs::Value::from(*x), sonic_rs::json!(*x)), P::U(x) => (sonic_rs::Value::from(*x), sonic_rs::json!(*x)),
        P::F(x) => (sonic_rs::Value::try_from(*x).unwrap_or_default(), sonic_rs::json!(*x)), P::B(x) => (sonic_rs::Value::from(*x), sonic_rs::json!(*x)),
        P::S(x) => (sonic_rs::Value::from(x.as_str()), sonic_rs::json!(x.clone())), P::V(x) => (sonic_rs::Value::from(x.clone()), sonic_rs::json!(x.clone())) } }
    let res = catch(|| { let (a1, a2) = cmp(&v1, &p); let (b1, b2) = cmp(&v2, &p); let (c, _) = cmp(&v1, &q); let (d1, d2) = cmp(&v3, &p);
        let (vf, vj) = built(&p);
        json!({"a1":a1,"a2":a2,"b1":b1,"b2":b2,"c":c,"pq":peq(&p, &q),"d1":d1,"d2":d2,
               "f1": vf == v1 && v1 == vf && sonic_rs::to_string(&vf).ok() == Some(pt.clone()), "j1": vj == v1 && v1 == vj && sonic_rs::to_string(&vj).ok() == Some(pt.clone())}) });
    Some(match res { Ok(r) => json!({"ev":"eqprim","kind":kinds[k],"rkind":kinds[rk],"ptext":bytes_j(pt.as_bytes()),"rtext":bytes_j(rt.as_bytes()),"r":r,"panic":false}),
                     Err(m) => json!({"ev":"eqprim","kind":kinds[k],"rkind":kinds[rk],"ptext":bytes_j(pt.as_bytes()),"rtext":bytes_j(rt.as_bytes()),"panic":true,"msg":m}) })
}

/// one (type, text) pair: prints the differential record
pub fn probe(args: &[String]) -> i32 {
    let name = arg(args, "--ty").expect("--ty");
    let text = unhex(arg(args, "--hex").expect("--hex"));
    let reg = registry();
    let Some(e) = reg.iter().find(|e| e.name == name) else { eprintln!("unknown type"); return 2 };
    println!("{}", (e.de)(&text));
    0
}

/// I->S: mutated texts per type (differential) and the conversion square
pub fn record(args: &[String]) -> i32 {
    let seed = arg_u64(args, "--seed", 1);
    let n = arg_u64(args, "--n", 1000);
    let out = arg(args, "--out").expect("--out");
    let shards = arg_u64(args, "--shards", 1);
    let mode = arg(args, "--mode").unwrap_or("conv");
    let mut inflight = Inflight::new(arg(args, "--inflight"));
    let mut rng = Rng::new(seed ^ 0x7479);
    let mut outs: Vec<Out> = (0..shards).map(|i| Out::create(&format!("{out}.{i}.ndjson"))).collect();
    let reg = registry();
    let mut count = 0u64;
    for i in 0..n {
        let e = &reg[(i as usize) % reg.len()];
        let ev = if mode == "eq" {
            if i % 3 == 2 { match eqprim_event(&mut rng) { Some(e) => e, None => continue } } else {
            match eq_event(&mut rng) { Some(e) => e, None => continue } }
        } else if mode == "conv" {
            let Some(c) = e.conv else { continue };
            inflight.set(i, e.name.as_bytes());
            let mut j = c(&mut rng);
            j["ev"] = json!("conv"); j["ty"] = json!(e.name);
            j
        } else {
            if e.name.starts_with("dom_") { continue; }
            // a valid text of the type (from an arbitrary value, or the type's own generator) then mutated: type-directed near-misses
            let mut text: Vec<u8> = if let Some(c) = e.conv {
                let j = c(&mut rng);
                let Some(text) = j["text"]["b"].as_array() else { continue };
                text.iter().map(|x| x.as_u64().unwrap() as u8).collect()
            } else if let Some(g) = e.gen { g(&mut rng) } else { continue };
            let bytesfam = matches!(e.name, "bytes" | "vec_bytebuf" | "struct_bytes" | "tup_bytes" | "map_string_bytebuf");
            // generated texts of the byte-buffer family keep every non-UTF-8 byte inside a byte-buffer string unless an unknown member was added
            let mut blobonly = bytesfam && !text.windows(4).any(|w| w == b"\"zz\"");
            match rng.below(7) {
                0 | 1 => {}
                6 => { if let Some(t) = repeat_members(&mut rng, &text) { text = t; } }
                2 => { if let Some(t) = inject_unknown(&mut rng, &text) { text = t; blobonly = false; } }
                _ => { let mut g = crate::jt::Gen { rng: &mut rng }; text = g.mutate(&text); blobonly = false; }
            }
            inflight.set(i, &text);
            let r = (e.de)(&text);
            json!({"ev":"de","ty":e.name,"text":bytes_j(&text),"res":r,"blobonly":blobonly,"bytesfam":bytesfam})
        };
        outs[(count % shards) as usize].line(&ev);
        count += 1;
    }
    for o in outs.iter_mut() { o.flush(); }
    println!("{}", json!({"suite":"ty-record","mode":mode,"events":count}));
    0
}
