//! String-literal decoding (C09): parametric sweeps (special character x position x length x start
//! offset x what follows) and escape tables over six decoders x {strict, lossy}.  Every case is logged and
//! validated by Trace_Strings.tla, which decodes the literal with the payload layer of JsonText.tla.
use crate::dump::{bytes_j, cps};
use crate::util::*;
use serde::Deserialize;
use serde_json::{json, Value as J};
use sonic_rs::{Deserializer, JsonContainerTrait, JsonValueTrait, LazyValue, OwnedLazyValue, Value};
use std::borrow::Cow;
use std::collections::HashMap;

#[derive(Deserialize)]
struct Borrowed<'a> { #[serde(borrow)] s: Cow<'a, str> }
#[derive(Deserialize)]
struct BorrowedStr<'a> { s: &'a str }
/// the literal under test between two other strings of the same document that are not UTF-8
#[derive(Deserialize)]
struct BetweenBytes<'a> { #[allow(dead_code)] p: serde_bytes::ByteBuf, #[serde(borrow)] s: Cow<'a, str>, #[allow(dead_code)] q: serde_bytes::ByteBuf }
#[derive(Deserialize)]
struct BetweenLossy<'a> { #[allow(dead_code)] p: String, #[serde(borrow)] s: Cow<'a, str>, #[allow(dead_code)] q: String }

fn okj(s: &str, borrowed: Option<bool>) -> J {
    if std::str::from_utf8(s.as_bytes()).is_err() { return json!({"ok":true,"invalid_utf8":true,"s":[],"b":"na","panic":false}); }
    json!({"ok":true,"invalid_utf8":false,"s":cps(s),"b": match borrowed { Some(true) => "yes", Some(false) => "no", None => "na" },"panic":false})
}
fn errj(e: &sonic_rs::Error) -> J { json!({"ok":false,"panic":false,"tm":e.is_unmatched_type(),"msg":format!("{}", e).chars().take(60).collect::<String>()}) }
fn run(f: impl FnOnce() -> Result<J, sonic_rs::Error>) -> J {
    match catch(f) { Ok(Ok(j)) => j, Ok(Err(e)) => errj(&e), Err(p) => json!({"ok":false,"panic":true,"msg":p}) }
}
fn within(base: &[u8], s: &str) -> bool {
    let (b0, r0) = (base.as_ptr() as usize, s.as_ptr() as usize);
    r0 >= b0 && r0 + s.len() <= b0 + base.len()
}

/// `pre` + literal + `post` is the document actually parsed; role says where the literal sits.
pub fn event(ws: usize, lit: &[u8], follow: &[u8], origin: &str) -> J {
    let mut res = serde_json::Map::new();
    let pad: Vec<u8> = vec![b' '; ws];
    let cat = |parts: &[&[u8]]| -> Vec<u8> { parts.concat() };
    // documents
    let top = cat(&[&pad, lit, follow_top(follow)]);
    let in_arr = cat(&[&pad, b"[", lit, b"]", follow_top(follow)]);
    let as_key = cat(&[&pad, b"{", lit, b":1}", follow_top(follow)]);
    let as_field = cat(&[&pad, b"{\"s\":", lit, b"}", follow_top(follow)]);
    let in_arr_key = cat(&[&pad, b"[{", lit, b":1}]", follow_top(follow)]);
    let between = cat(&[&pad, b"{\"p\":\"\xff\xfea\",\"s\":", lit, b",\"q\":\"b\xc3\"}", follow_top(follow)]);
    // strict decoders
    res.insert("cow_between_bytes".into(), run(|| sonic_rs::from_slice::<BetweenBytes>(&between).map(|b| { let bo = matches!(b.s, Cow::Borrowed(_)); if bo && !within(&between, &b.s) { json!({"ok":true,"panic":false,"dangling":true}) } else { okj(&b.s, Some(bo)) } })));
    res.insert("dom_inplace".into(), run(|| sonic_rs::from_slice::<Value>(&top).map(|v| match v.as_str() { Some(s) => okj(s, None), None => json!({"ok":false,"panic":false,"notstr":true}) })));
    res.insert("dom_copy".into(), run(|| sonic_rs::from_slice::<(Value,)>(&in_arr).map(|v| match v.0.as_str() { Some(s) => okj(s, None), None => json!({"ok":false,"panic":false,"notstr":true}) })));
    res.insert("string".into(), run(|| sonic_rs::from_slice::<String>(&top).map(|s| okj(&s, None))));
    res.insert("string_in_seq".into(), run(|| sonic_rs::from_slice::<Vec<String>>(&in_arr).map(|s| okj(&s[0], None))));
    res.insert("cow_borrow".into(), run(|| sonic_rs::from_slice::<Borrowed>(&as_field).map(|b| { let bo = matches!(b.s, Cow::Borrowed(_)); if bo && !within(&as_field, &b.s) { json!({"ok":true,"panic":false,"dangling":true}) } else { okj(&b.s, Some(bo)) } })));
    res.insert("str_borrow".into(), run(|| sonic_rs::from_slice::<BorrowedStr>(&as_field).map(|b| okj(b.s, Some(true)))));
    res.insert("key_inplace".into(), run(|| sonic_rs::from_slice::<Value>(&as_key).map(|v| match v.as_object().and_then(|o| o.iter().next()) { Some((k, _)) => okj(k, None), None => json!({"ok":false,"panic":false,"notstr":true}) })));
    res.insert("key_copy".into(), run(|| sonic_rs::from_slice::<(Value,)>(&in_arr_key).map(|v| match v.0.as_object().and_then(|o| o.iter().next()) { Some((k, _)) => okj(k, None), None => json!({"ok":false,"panic":false,"notstr":true}) })));
    res.insert("map_key".into(), run(|| sonic_rs::from_slice::<HashMap<String, u8>>(&as_key).map(|m| okj(m.keys().next().unwrap(), None))));
    res.insert("lazy_as_str".into(), run(|| sonic_rs::from_slice::<LazyValue>(&top).map(|v| match v.as_str() { Some(s) => okj(s, None), None => json!({"ok":false,"panic":false,"asnone":true}) })));
    res.insert("ownedlazy_as_str".into(), run(|| sonic_rs::from_slice::<OwnedLazyValue>(&top).map(|v| match v.as_str() { Some(s) => okj(s, None), None => json!({"ok":false,"panic":false,"asnone":true}) })));
    res.insert("get_as_str".into(), run(|| sonic_rs::get(&in_arr[..], &[0usize]).map(|v| match v.as_str() { Some(s) => okj(s, None), None => json!({"ok":false,"panic":false,"asnone":true}) })));
    res.insert("objiter_key".into(), run(|| match sonic_rs::to_object_iter(&as_key[..]).next() { Some(Ok((k, _))) => Ok(okj(&k, None)), Some(Err(e)) => Err(e), None => Ok(json!({"ok":false,"panic":false,"notstr":true})) }));
    // lossy decoders
    let mut lossy = serde_json::Map::new();
    lossy.insert("dom_inplace".into(), run(|| Deserializer::from_slice(&top).utf8_lossy().deserialize::<Value>().map(|v| match v.as_str() { Some(s) => okj(s, None), None => json!({"ok":false,"panic":false,"notstr":true}) })));
    lossy.insert("dom_copy".into(), run(|| Deserializer::from_slice(&in_arr).utf8_lossy().deserialize::<(Value,)>().map(|v| match v.0.as_str() { Some(s) => okj(s, None), None => json!({"ok":false,"panic":false,"notstr":true}) })));
    lossy.insert("string".into(), run(|| Deserializer::from_slice(&top).utf8_lossy().deserialize::<String>().map(|s| okj(&s, None))));
    lossy.insert("string_in_seq".into(), run(|| Deserializer::from_slice(&in_arr).utf8_lossy().deserialize::<Vec<String>>().map(|s| okj(&s[0], None))));
    lossy.insert("key_copy".into(), run(|| Deserializer::from_slice(&in_arr_key).utf8_lossy().deserialize::<(Value,)>().map(|v| match v.0.as_object().and_then(|o| o.iter().next()) { Some((k, _)) => okj(k, None), None => json!({"ok":false,"panic":false,"notstr":true}) })));
    lossy.insert("cow_between".into(), run(|| Deserializer::from_slice(&between).utf8_lossy().deserialize::<BetweenLossy>().map(|b| { let bo = matches!(b.s, Cow::Borrowed(_)); okj(&b.s, Some(bo)) })));
    lossy.insert("map_key".into(), run(|| Deserializer::from_slice(&as_key).utf8_lossy().deserialize::<HashMap<String, u8>>().map(|m| okj(m.keys().next().unwrap(), None))));
    let mut ev = json!({"ev":"str","origin":origin,"ws":ws,"lit":bytes_j(lit),"follow":bytes_j(follow_top(follow)),"res":res,"lossy":lossy});
    // a build of sonic-rs with the `utf8_lossy` feature: the plain entry points are lossy decoders themselves
    #[cfg(feature = "utf8_lossy")]
    {
        let mut fl = serde_json::Map::new();
        fl.insert("dom_inplace".into(), run(|| sonic_rs::from_slice::<Value>(&top).map(|v| match v.as_str() { Some(s) => okj(s, None), None => json!({"ok":false,"panic":false,"notstr":true}) })));
        fl.insert("dom_copy".into(), run(|| sonic_rs::from_slice::<(Value,)>(&in_arr).map(|v| match v.0.as_str() { Some(s) => okj(s, None), None => json!({"ok":false,"panic":false,"notstr":true}) })));
        fl.insert("string".into(), run(|| sonic_rs::from_slice::<String>(&top).map(|s| okj(&s, None))));
        fl.insert("string_in_seq".into(), run(|| sonic_rs::from_slice::<Vec<String>>(&in_arr).map(|s| okj(&s[0], None))));
        fl.insert("key_copy".into(), run(|| sonic_rs::from_slice::<(Value,)>(&in_arr_key).map(|v| match v.0.as_object().and_then(|o| o.iter().next()) { Some((k, _)) => okj(k, None), None => json!({"ok":false,"panic":false,"notstr":true}) })));
        fl.insert("key_inplace".into(), run(|| sonic_rs::from_slice::<Value>(&as_key).map(|v| match v.as_object().and_then(|o| o.iter().next()) { Some((k, _)) => okj(k, None), None => json!({"ok":false,"panic":false,"notstr":true}) })));
        fl.insert("map_key".into(), run(|| sonic_rs::from_slice::<HashMap<String, u8>>(&as_key).map(|m| okj(m.keys().next().unwrap(), None))));
        ev["flossy"] = J::Object(fl);
    }
    ev
}
fn follow_top(f: &[u8]) -> &[u8] { f }

const SPECIALS: &[&[u8]] = &[b"\\\"", b"\\\\", b"\\n", b"\\/", b"\\u0041", b"\\u00e9", b"\\ud83d\\ude00", b"\\u0000", b"\\t\\r\\b\\f",
    b"\x01", b"\x1f", b"\n", b"\t", b"\\x", b"\\u12G4", b"\\ud800", b"\\udfff", b"\\ud800\\u0041", b"\\ud83d\\ud83d", b"\\ud83d\\tde00", b"\\ud83dXude00", b"\\ud83d\\Ude00", b"\\ud83du\\de00", b"\\ud83d\\u de00", b"\\ud83d\\\\ude00", b"\\",
    "\u{e9}".as_bytes(), "\u{4e2d}".as_bytes(), "\u{1f600}".as_bytes(), b"\xff", b"\xc3", b"\xe4\xb8", b"\xed\xa0\x80", b"\xf4\x90\x80\x80", b"\xc0\x80", b"\x7f"];

pub fn record(args: &[String]) -> i32 {
    let seed = arg_u64(args, "--seed", 1);
    let n = arg_u64(args, "--n", 1000);
    let out = arg(args, "--out").expect("--out");
    let shards = arg_u64(args, "--shards", 1);
    let mode = arg(args, "--mode").unwrap_or("sweep");
    let mut inflight = Inflight::new(arg(args, "--inflight"));
    let mut rng = Rng::new(seed ^ 0x7374);
    let mut outs: Vec<Out> = (0..shards).map(|i| Out::create(&format!("{out}.{i}.ndjson"))).collect();
    let mut count = 0u64;
    let mut panics = 0u64;
    let mut emit = |ev: J, outs: &mut Vec<Out>, count: &mut u64, panics: &mut u64| {
        if ev.to_string().contains("\"panic\":true") { *panics += 1; }
        outs[(*count % shards) as usize].line(&ev);
        *count += 1;
    };
    if mode == "codepoints" {
        // every code point through \uXXXX (BMP) and through surrogate-pair escapes; `--n` = stride (1 = exhaustive)
        let stride = n.max(1) as u32;
        let mut cp = (seed as u32) % stride;
        while cp <= 0x10ffff {
            let lit = if cp < 0x10000 { format!("\"\\u{:04x}\"", cp) } else { let c = cp - 0x10000; format!("\"\\u{:04X}\\u{:04x}\"", 0xd800 + (c >> 10), 0xdc00 + (c & 0x3ff)) };
            inflight.set(cp as u64, lit.as_bytes());
            emit(event(0, lit.as_bytes(), b"", "codepoint"), &mut outs, &mut count, &mut panics);
            cp += stride;
        }
        // all low-after-high mismatches on a coarse grid
        for hi in (0xd800u32..0xdc00).step_by(97) { for lo in [0x0041u32, 0xd800, 0xdbff, 0xdc00, 0xdfff, 0xe000] {
            let lit = format!("\"\\u{:04x}\\u{:04x}\"", hi, lo);
            emit(event(0, lit.as_bytes(), b"", "pair"), &mut outs, &mut count, &mut panics);
        } }
    } else {
        for i in 0..n {
            // literal = plain^p special plain^(L-p) , optionally with a leading escape so that the "after the first
            // escape" loops of the decoders are the ones that meet the special character
            let len = if rng.chance(1, 3) { rng.range(0, 40) } else { rng.range(0, 200) };
            let p = rng.below(len.min(130) + 1);
            let sp: &[u8] = *rng.pick(SPECIALS);
            let mut lit = vec![b'"'];
            match rng.below(4) { 0 => lit.extend_from_slice(b"\\n"), 1 => lit.extend_from_slice(b"\\u0041"), _ => {} }
            let plain = |rng: &mut Rng, lit: &mut Vec<u8>, k: usize| { for _ in 0..k { lit.push(*rng.pick(b"abcdefghij 0123456789_-.,:;[]{}")); } };
            plain(&mut rng, &mut lit, p);
            if !rng.chance(1, 12) { lit.extend_from_slice(sp); }
            if rng.chance(1, 6) { let sp2: &[u8] = *rng.pick(SPECIALS); let k = rng.below(40); plain(&mut rng, &mut lit, k); lit.extend_from_slice(sp2); }
            plain(&mut rng, &mut lit, len - p);
            if !rng.chance(1, 25) { lit.push(b'"'); }          // else: missing closing quote
            let ws = if rng.chance(1, 2) { 0 } else { rng.below(65) };
            let follow: &[u8] = *rng.pick(&[&b""[..], b" ", b"          ", b"                                                                        "]);
            inflight.set(i, &lit);
            emit(event(ws, &lit, follow, "sweep"), &mut outs, &mut count, &mut panics);
        }
    }
    for o in outs.iter_mut() { o.flush(); }
    println!("{}", json!({"suite":"st-record","events":count,"panics":panics}));
    0
}
