//! C17: the vector primitives of every backend against the lane-wise specification (tla/Simd.tla).
//! Backends present in one build: the crate's own selection (sonic_simd::u8x16/32/64 ...: SSE2/AVX2 or, in the
//! baseline build, SSE2 + composed 256/512), the portable chain (v128.rs -> v256.rs -> v512.rs compiled from
//! /repo's sources here), the arch helpers of sonic-rs and sonic-number (fallback.rs always, x86_64.rs when the
//! target features the crates themselves require are on).
use crate::util::*;
use serde_json::{json, Value as J};
use sonic_simd::{BitMask, Mask, Simd};

#[allow(dead_code, clippy::all)]
mod portable {
    pub use sonic_simd::{Mask, Simd};
    #[path = "/repo/sonic-simd/src/v128.rs"]
    mod v128;
    pub use v128::*;
    #[path = "/repo/sonic-simd/src/v256.rs"]
    mod v256;
    pub use v256::*;
    #[path = "/repo/sonic-simd/src/v512.rs"]
    mod v512;
    pub use v512::*;
}
#[allow(dead_code, clippy::all)]
mod arch_fallback {
    #[path = "/repo/src/util/arch/fallback.rs"]
    pub mod rs;
    #[path = "/repo/sonic-number/src/arch/fallback.rs"]
    pub mod num;
}
#[cfg(all(target_arch = "x86_64", target_feature = "pclmulqdq", target_feature = "avx2", target_feature = "sse2"))]
#[allow(dead_code, clippy::all)]
mod arch_x86 {
    #[path = "/repo/src/util/arch/x86_64.rs"]
    pub mod rs;
    #[path = "/repo/sonic-number/src/arch/x86_64.rs"]
    pub mod num;
}

trait Bits { fn bits(&self) -> Vec<u8>; fn from_bits(b: &[u8]) -> Self; }
macro_rules! bits { ($($t:ty)*) => { $(impl Bits for $t {
    fn bits(&self) -> Vec<u8> { (0..<$t>::BITS).map(|i| ((*self >> i) & 1) as u8).collect() }
    fn from_bits(b: &[u8]) -> Self { let mut x: $t = 0; for (i, v) in b.iter().enumerate() { if *v == 1 { x |= 1 << i; } } x }
})* } }
bits!(u16 u32 u64);

fn u8s(j: &J) -> Vec<u8> { j.as_array().map(|a| a.iter().map(|x| x.as_u64().unwrap_or(0) as u8).collect()).unwrap_or_default() }

/// comparisons of one unsigned and one signed vector type against a splat constant
fn cmp<U, I>(a: &[u8], c: u8) -> J
where U: Simd<Element = u8>, I: Simd<Element = i8>, <U::Mask as Mask>::BitMask: Bits, <I::Mask as Mask>::BitMask: Bits {
    let (va, vi) = unsafe { (U::from_slice_unaligned_unchecked(a), I::from_slice_unaligned_unchecked(a)) };
    let eq = va.eq(&U::splat(c)).bitmask();
    let eqi = vi.eq(&I::splat(c as i8)).bitmask().bits();
    let mut back = vec![0u8; a.len()];
    unsafe { va.write_to_slice_unaligned_unchecked(&mut back) };
    let mut backi = vec![0u8; a.len()];
    unsafe { vi.write_to_slice_unaligned_unchecked(&mut backi) };
    json!({"eq": eq.bits(), "eqi": eqi, "le": va.le(&U::splat(c)).bitmask().bits(), "gt": vi.gt(&I::splat(c as i8)).bitmask().bits(),
           "les": vi.le(&I::splat(c as i8)).bitmask().bits(), "ge": I::splat(c as i8).gt(&vi).bitmask().bits(),
           "store": back, "storei": backi, "splat_true": <U::Mask as Mask>::splat(true).bitmask().bits(), "splat_false": <U::Mask as Mask>::splat(false).bitmask().bits()})
}

fn maskops<U>(x: &[u8], y: &[u8]) -> J where U: Simd<Element = u8>, <U::Mask as Mask>::BitMask: Bits,
    U::Mask: std::ops::BitOr<U::Mask, Output = U::Mask> + std::ops::BitAnd<U::Mask, Output = U::Mask> {
    let one = U::splat(1);
    let m = |b: &[u8]| unsafe { U::from_slice_unaligned_unchecked(b) }.eq(&one);
    let mut acc = m(x);
    acc |= m(y);
    json!({"orm": (m(x) | m(y)).bitmask().bits(), "andm": (m(x) & m(y)).bitmask().bits(), "orassign": acc.bitmask().bits()})
}

fn bitops<B: BitMask + Bits>(x: &[u8], y: &[u8], k: usize) -> J {
    let (bx, by) = (B::from_bits(x), B::from_bits(y));
    json!({"first": bx.first_offset(), "before": bx.before(&by), "allzero": bx.all_zero(), "clear": bx.clear_high_bits(k).bits(), "le": bx.as_little_endian().bits()})
}

fn want_eq(want: &J, got: &J, keys: &[(&str, &str)], backend: &str, bad: &mut Vec<J>, case: &J) {
    for (gk, wk) in keys {
        if got[*gk] != want[*wk] {
            bad.push(json!({"suite": "sd-replay", "class": "primitive", "backend": backend, "op": case["op"], "field": gk, "case": case, "want": want[*wk], "got": got[*gk],
                "why": format!("{backend}: {} of {} differs from the lane-wise specification: got {} want {}", gk, case, got[*gk], want[*wk])}));
        }
    }
}

pub fn replay(args: &[String]) -> i32 {
    let beh = arg(args, "--beh").expect("--beh");
    let out = arg(args, "--out").expect("--out");
    let text = std::fs::read_to_string(beh).expect("beh");
    let mut bad: Vec<J> = Vec::new();
    let mut cases = 0u64;
    let mut evals = 0u64;
    let mut per_backend: std::collections::BTreeMap<String, u64> = Default::default();
    let native = if cfg!(target_feature = "avx2") { "native-avx2" } else if cfg!(target_feature = "sse2") { "native-sse2" } else { "native-portable" };
    for line in text.lines() {
        let rec: J = match serde_json::from_str(line) { Ok(r) => r, Err(_) => continue };
        let (case, want) = (&rec["case"], &rec["want"]);
        cases += 1;
        let op = case["op"].as_str().unwrap_or("");
        let mut run = |backend: &str, got: Result<J, String>, keys: &[(&str, &str)], bad: &mut Vec<J>| {
            *per_backend.entry(backend.to_string()).or_default() += 1;
            evals += 1;
            match got {
                Ok(g) => want_eq(want, &g, keys, backend, bad, case),
                Err(p) => bad.push(json!({"suite": "sd-replay", "class": "panic", "backend": backend, "op": op, "case": case, "why": format!("{backend}: panic on {case}: {p}")})),
            }
        };
        match op {
            "cmp" => {
                let a = u8s(&case["a"]);
                let c = case["c"].as_u64().unwrap() as u8;
                let n = case["n"].as_u64().unwrap();
                let keys = [("eq", "eq"), ("eqi", "eq"), ("le", "le"), ("gt", "gt"), ("les", "les"), ("ge", "ge")];
                let chk = |g: Result<J, String>, backend: &str, bad: &mut Vec<J>| {
                    if let Ok(g) = &g {
                        let ones = vec![1u8; a.len()]; let zeros = vec![0u8; a.len()];
                        if g["store"] != json!(a) || g["storei"] != json!(a) || g["splat_true"] != json!(ones) || g["splat_false"] != json!(zeros) {
                            bad.push(json!({"suite": "sd-replay", "class": "primitive", "backend": backend, "op": "cmp", "field": "store/splat", "case": case,
                                "why": format!("{backend}: load/store or Mask::splat does not round-trip for {case}: {g}")}));
                        }
                    }
                    g
                };
                match n {
                    16 => { let g = chk(catch(|| cmp::<sonic_simd::u8x16, sonic_simd::i8x16>(&a, c)), native, &mut bad); run(native, g, &keys, &mut bad);
                            let g = chk(catch(|| cmp::<portable::Simd128u, portable::Simd128i>(&a, c)), "portable", &mut bad); run("portable", g, &keys, &mut bad); }
                    32 => { let g = chk(catch(|| cmp::<sonic_simd::u8x32, sonic_simd::i8x32>(&a, c)), native, &mut bad); run(native, g, &keys, &mut bad);
                            let g = chk(catch(|| cmp::<portable::Simd256u, portable::Simd256i>(&a, c)), "portable", &mut bad); run("portable", g, &keys, &mut bad); }
                    _ => { let g = chk(catch(|| cmp::<sonic_simd::u8x64, sonic_simd::i8x64>(&a, c)), native, &mut bad); run(native, g, &keys, &mut bad);
                           let g = chk(catch(|| cmp::<portable::Simd512u, portable::Simd512i>(&a, c)), "portable", &mut bad); run("portable", g, &keys, &mut bad); }
                }
                // first_offset of the eq mask (how the scanners locate a quote / backslash)
                let first = match n { 16 => unsafe { sonic_simd::u8x16::from_slice_unaligned_unchecked(&a) }.eq(&sonic_simd::u8x16::splat(c)).bitmask().first_offset(),
                                      32 => unsafe { sonic_simd::u8x32::from_slice_unaligned_unchecked(&a) }.eq(&sonic_simd::u8x32::splat(c)).bitmask().first_offset(),
                                      _ => unsafe { sonic_simd::u8x64::from_slice_unaligned_unchecked(&a) }.eq(&sonic_simd::u8x64::splat(c)).bitmask().first_offset() };
                run(native, Ok(json!({"first": first})), &[("first", "first")], &mut bad);
            }
            "bits" => {
                let (x, y) = (u8s(&case["x"]), u8s(&case["y"]));
                let k = case["k"].as_u64().unwrap() as usize;
                let n = case["n"].as_u64().unwrap();
                let keys = [("first", "first"), ("before", "before"), ("allzero", "allzero"), ("clear", "clear")];
                let mkeys = [("orm", "orm"), ("andm", "andm"), ("orassign", "orm")];
                match n {
                    16 => { run("bits-u16", catch(|| bitops::<u16>(&x, &y, k)), &keys, &mut bad);
                            run(native, catch(|| maskops::<sonic_simd::u8x16>(&x, &y)), &mkeys, &mut bad); run("portable", catch(|| maskops::<portable::Simd128u>(&x, &y)), &mkeys, &mut bad); }
                    32 => { run("bits-u32", catch(|| bitops::<u32>(&x, &y, k)), &keys, &mut bad);
                            run(native, catch(|| maskops::<sonic_simd::u8x32>(&x, &y)), &mkeys, &mut bad); run("portable", catch(|| maskops::<portable::Simd256u>(&x, &y)), &mkeys, &mut bad); }
                    _ => { run("bits-u64", catch(|| bitops::<u64>(&x, &y, k)), &keys, &mut bad);
                           run(native, catch(|| maskops::<sonic_simd::u8x64>(&x, &y)), &mkeys, &mut bad); run("portable", catch(|| maskops::<portable::Simd512u>(&x, &y)), &mkeys, &mut bad);
                           let bx = u64::from_bits(&x);
                           run("arch-fallback", catch(|| json!({"prefix": unsafe { arch_fallback::rs::prefix_xor(bx) }.bits()})), &[("prefix", "prefix")], &mut bad);
                           #[cfg(all(target_arch = "x86_64", target_feature = "pclmulqdq", target_feature = "avx2", target_feature = "sse2"))]
                           run("arch-x86_64", catch(|| json!({"prefix": unsafe { arch_x86::rs::prefix_xor(bx) }.bits()})), &[("prefix", "prefix")], &mut bad); }
                }
            }
            "space" => {
                let d = u8s(&case["data"]);
                let mut a = [0u8; 64];
                a.copy_from_slice(&d[..64]);
                run("arch-fallback", catch(|| json!({"bits": unsafe { arch_fallback::rs::get_nonspace_bits(&a) }.bits()})), &[("bits", "bits")], &mut bad);
                #[cfg(all(target_arch = "x86_64", target_feature = "pclmulqdq", target_feature = "avx2", target_feature = "sse2"))]
                run("arch-x86_64", catch(|| json!({"bits": unsafe { arch_x86::rs::get_nonspace_bits(&a) }.bits()})), &[("bits", "bits")], &mut bad);
            }
            "str2int" => {
                let b = u8s(&case["bytes"]);
                let need = case["need"].as_u64().unwrap() as usize;
                let wd = u8s(&want["digits"]);
                let wv = wd.iter().fold(0u64, |s, d| s * 10 + *d as u64);
                let w2 = json!({"count": want["count"], "value": wv});
                let want = &w2;
                let mut run2 = |backend: &str, got: Result<(u64, usize), String>| {
                    *per_backend.entry(backend.to_string()).or_default() += 1;
                    match got { Ok((v, n)) => want_eq(want, &json!({"count": n, "value": v}), &[("count", "count"), ("value", "value")], backend, &mut bad, case),
                                Err(p) => bad.push(json!({"suite": "sd-replay", "class": "panic", "backend": backend, "op": op, "case": case, "why": format!("{backend}: panic on {case}: {p}")})) }
                };
                run2("arch-fallback", catch(|| unsafe { arch_fallback::num::simd_str2int(&b, need) }));
                #[cfg(all(target_arch = "x86_64", target_feature = "pclmulqdq", target_feature = "avx2", target_feature = "sse2"))]
                run2("arch-x86_64", catch(|| unsafe { arch_x86::num::simd_str2int(&b, need) }));
            }
            _ => {}
        }
        if bad.len() > 200 { break; }
    }
    let summ = json!({"cases": cases, "evaluations": evals, "per_backend": per_backend, "mismatches": bad.iter().take(60).collect::<Vec<_>>(), "n_mismatches": bad.len(), "native": native});
    std::fs::create_dir_all(out).ok();
    std::fs::write(format!("{out}/summary.0.json"), serde_json::to_string(&summ).unwrap()).unwrap();
    0
}
