//! Projection of implementation values onto the abstract values of the specification
//! (JsonText.tla / JsonValue.tla), using the public read API only.
use serde_json::{json, Value as J};
use sonic_rs::{JsonContainerTrait, JsonNumberTrait, JsonType, JsonValueTrait, Value};

pub fn cps(s: &str) -> J { J::Array(s.chars().map(|c| json!(c as u32)).collect()) }
pub fn bytes_j(b: &[u8]) -> J { J::Array(b.iter().map(|x| json!(*x)).collect()) }
pub fn digits(s: &str) -> J { J::Array(s.bytes().filter(|b| b.is_ascii_digit()).map(|b| json!(b - b'0')).collect()) }

/// f64 as sign, biased exponent and the decimal digits of the 52-bit fraction field
pub fn f64_j(x: f64) -> J {
    let bits = x.to_bits();
    json!({"t":"num","k":"f64","neg": (bits >> 63) == 1, "e": ((bits >> 52) & 0x7ff) as u32,
           "m": digits(&(bits & ((1u64 << 52) - 1)).to_string())})
}

/// Dump a DOM value.  Err(..) describes an inconsistency between accessors.
pub fn dump_value(v: &Value) -> Result<J, String> {
    let ty = v.get_type();
    match ty {
        JsonType::Null => {
            if !v.is_null() || v.as_bool().is_some() || v.as_str().is_some() || v.as_number().is_some() { return Err("null accessors".into()); }
            Ok(json!({"t":"null"}))
        }
        JsonType::Boolean => {
            let b = v.as_bool().ok_or("bool without as_bool")?;
            if v.is_true() != b || v.is_false() == b || !v.is_boolean() { return Err("bool accessors".into()); }
            Ok(json!({"t":"bool","b":b}))
        }
        JsonType::String => {
            let s = v.as_str().ok_or("string without as_str")?;
            if !v.is_str() || v.as_number().is_some() { return Err("str accessors".into()); }
            if std::str::from_utf8(s.as_bytes()).is_err() { return Err(format!("as_str returned invalid UTF-8: {:02x?}", s.as_bytes())); }
            Ok(json!({"t":"str","s":cps(s)}))
        }
        JsonType::Number => {
            if !v.is_number() { return Err("number !is_number".into()); }
            let numeric = |v: &Value| -> Result<J, String> {
                let n = v.as_number().ok_or("number without as_number")?;
                let (u, i, f) = (v.is_u64(), v.is_i64(), v.is_f64());
                if n.is_u64() {
                    let x = v.as_u64().ok_or("is_u64 without as_u64")?;
                    if !u || f || i != (x <= i64::MAX as u64) { return Err(format!("u64 flags {u} {i} {f}")); }
                    Ok(json!({"t":"num","k":"u64","neg":false,"d":digits(&x.to_string())}))
                } else if n.is_i64() {
                    let x = v.as_i64().ok_or("is_i64 without as_i64")?;
                    if !i || f || u { return Err(format!("i64 flags {u} {i} {f}")); }
                    Ok(json!({"t":"num","k":"i64","neg":x < 0,"d":digits(&x.to_string())}))
                } else {
                    let x = v.as_f64().ok_or("f64 without as_f64")?;
                    if !f || u || i { return Err(format!("f64 flags {u} {i} {f}")); }
                    Ok(f64_j(x))
                }
            };
            if let Some(r) = v.as_raw_number() {
                // raw-number node: the literal text, plus the numeric view the accessors give (may be absent
                // when the literal is not representable, e.g. 1e999)
                let as_num = if v.as_number().is_some() { numeric(v)? } else { json!({"t":"none"}) };
                Ok(json!({"t":"num","k":"raw","raw":bytes_j(r.as_str().as_bytes()),"as":as_num}))
            } else {
                numeric(v)
            }
        }
        JsonType::Array => {
            let a = v.as_array().ok_or("array without as_array")?;
            if !v.is_array() { return Err("arr !is_array".into()); }
            let mut e = Vec::with_capacity(a.len());
            for (i, x) in a.iter().enumerate() {
                // cross-check index access
                match v.get(i) { Some(y) if std::ptr::eq(y, x) => {}, _ => return Err(format!("get({i}) != iter item")) }
                e.push(dump_value(x)?);
            }
            if v.get(a.len()).is_some() { return Err("get(len) is Some".into()); }
            Ok(json!({"t":"arr","e":e}))
        }
        JsonType::Object => {
            let o = v.as_object().ok_or("object without as_object")?;
            if !v.is_object() { return Err("obj !is_object".into()); }
            let mut m = Vec::with_capacity(o.len());
            for (k, x) in o.iter() {
                if std::str::from_utf8(k.as_bytes()).is_err() { return Err(format!("object key is invalid UTF-8: {:02x?}", k.as_bytes())); }
                m.push(json!([cps(k), dump_value(x)?]));
            }
            if m.len() != o.len() { return Err("object len != iter count".into()); }
            Ok(json!({"t":"obj","m":m}))
        }
    }
}

/// Dump a serde_json value (used when serde_json::Value is the *target* of sonic's deserializer).
pub fn dump_sj(v: &J) -> J {
    match v {
        J::Null => json!({"t":"null"}),
        J::Bool(b) => json!({"t":"bool","b":b}),
        J::String(s) => json!({"t":"str","s":cps(s)}),
        J::Number(n) => {
            if let Some(x) = n.as_u64() { json!({"t":"num","k":"u64","neg":false,"d":digits(&x.to_string())}) }
            else if let Some(x) = n.as_i64() { json!({"t":"num","k":"i64","neg":x<0,"d":digits(&x.to_string())}) }
            else { f64_j(n.as_f64().unwrap()) }
        }
        J::Array(a) => json!({"t":"arr","e": a.iter().map(dump_sj).collect::<Vec<_>>()}),
        J::Object(o) => json!({"t":"obj","m": o.iter().map(|(k, x)| json!([cps(k), dump_sj(x)])).collect::<Vec<_>>()}),
    }
}

/// Structural comparison of a spec value (with spans, `lit`, `k`) against a dump.
/// Numbers: classification and, for integers, the digits; floats are compared by the
/// caller when the spec supplies expected bits (`fe`/`fm`), else only classified.
pub fn matches_spec(spec: &J, got: &J, rawnum: bool) -> Result<(), String> {
    let t = spec["t"].as_str().unwrap_or("?");
    if got["t"].as_str() != Some(t) { return Err(format!("type {} vs {}", t, got["t"])); }
    match t {
        "null" => Ok(()),
        "bool" => if spec["b"] == got["b"] { Ok(()) } else { Err("bool".into()) },
        "str" => if spec["s"] == got["s"] { Ok(()) } else { Err(format!("str {} vs {}", spec["s"], got["s"])) },
        "num" => {
            if rawnum {
                return if got["k"] == "raw" && got["raw"] == spec["lit"] { Ok(()) } else { Err(format!("raw {} vs {}", spec["lit"], got)) };
            }
            if spec["k"] != got["k"] { return Err(format!("num class {} vs {}", spec["k"], got["k"])); }
            if spec["k"] == "f64" {
                if !spec["fe"].is_null() && (spec["fe"] != got["e"] || spec["fm"] != got["m"] || spec["fneg"] != got["neg"]) {
                    return Err(format!("f64 bits {} vs {}", spec, got));
                }
                Ok(())
            } else {
                let lit: Vec<u8> = spec["lit"].as_array().unwrap().iter().map(|x| x.as_u64().unwrap() as u8).collect();
                let neg = lit.first() == Some(&b'-');
                let d = digits(std::str::from_utf8(&lit).unwrap());
                if d == got["d"] && json!(neg) == got["neg"] { Ok(()) } else { Err(format!("int {} vs {}", spec["lit"], got)) }
            }
        }
        "arr" => {
            let (a, b) = (spec["e"].as_array().unwrap(), got["e"].as_array().ok_or("no e")?);
            if a.len() != b.len() { return Err(format!("arr len {} vs {}", a.len(), b.len())); }
            for (x, y) in a.iter().zip(b) { matches_spec(x, y, rawnum)?; }
            Ok(())
        }
        "obj" => {
            let (a, b) = (spec["m"].as_array().unwrap(), got["m"].as_array().ok_or("no m")?);
            if a.len() != b.len() { return Err(format!("obj len {} vs {}", a.len(), b.len())); }
            for (x, y) in a.iter().zip(b) {
                if x[0]["s"] != y[0] { return Err(format!("key {} vs {}", x[0]["s"], y[0])); }
                matches_spec(&x[1], &y[1], rawnum)?;
            }
            Ok(())
        }
        _ => Err(format!("unknown spec type {t}")),
    }
}
