//! Replay of LazyCache.tla schedules (C18): real threads run as_str / get / clone on one shared lazy value;
//! the atomic shim (hook H3) blocks each thread before every load / compare-exchange on the shared cell
//! until the schedule names it, and injects a spurious failure into a weak compare-exchange when the
//! schedule says so.
use crate::util::*;
use serde_json::{json, Value as J};
use sonic_rs::verif::{set_hook, Op};
use sonic_rs::{JsonValueTrait, LazyValue, OwnedLazyValue};
use std::cell::Cell;
use std::sync::{Arc, Condvar, Mutex};
use std::time::Duration;

#[derive(Clone, Copy, PartialEq, Debug)]
enum St { NotStarted, Waiting(Op), Running, Done }
struct Sched { st: Vec<St>, go: Vec<Option<bool>>, cell: usize, prims: Vec<Op> }
thread_local! { static TID: Cell<usize> = Cell::new(usize::MAX); }

struct Ctl { m: Mutex<Sched>, cv: Condvar }
impl Ctl {
    fn hook(&self, op: Op, cell: usize) -> bool {
        let tid = TID.with(|t| t.get());
        if std::env::var_os("VH_VERBOSE").is_some() { eprintln!("hook tid={} op={:?} cell={:x}", tid as isize, op, cell); }
        if tid == usize::MAX { return false; }                 // not a worker thread
        let mut g = self.m.lock().unwrap();
        if g.cell == 0 { g.cell = cell; }
        if g.cell != cell { return false; }                    // a private cell (a clone's own cache)
        if op != Op::Load && !g.prims.contains(&op) { g.prims.push(op); }
        g.st[tid] = St::Waiting(op);
        g.go[tid] = None;
        self.cv.notify_all();
        loop {
            if let Some(force) = g.go[tid] { g.go[tid] = None; g.st[tid] = St::Running; self.cv.notify_all(); return force; }
            g = self.cv.wait(g).unwrap();
        }
    }
    /// wait until thread t is blocked at a hook point or finished
    fn settle(&self, t: usize) -> Option<St> {
        let g = self.m.lock().unwrap();
        let (g, to) = self.cv.wait_timeout_while(g, Duration::from_secs(180), |s| !matches!(s.st[t], St::Waiting(_) | St::Done)).unwrap();
        if to.timed_out() { None } else { Some(g.st[t]) }
    }
    fn release(&self, t: usize, force: bool) { let mut g = self.m.lock().unwrap(); g.go[t] = Some(force); g.st[t] = St::Running; self.cv.notify_all(); }
}

enum Shared { Lazy(LazyValue<'static>), Owned(OwnedLazyValue) }
// the shared value is only read / cloned by the workers
unsafe impl Sync for Shared {}
unsafe impl Send for Shared {}

fn run_schedule(variant: &str, progs: &[String], sched: &[J]) -> Result<J, String> {
    let n = progs.len();
    let ctl = Arc::new(Ctl { m: Mutex::new(Sched { st: vec![St::NotStarted; n], go: vec![None; n], cell: 0, prims: Vec::with_capacity(4) }), cv: Condvar::new() });
    let mut handles: Vec<Option<std::thread::JoinHandle<String>>> = Vec::with_capacity(n);
    let mut results: Vec<String> = Vec::with_capacity(n);
    // everything the harness allocates inside the measured window is released inside it again
    let b0 = live();
    let tracing = std::env::var_os("VH_VERBOSE").is_some();
    if tracing { TRACE_IDX.store(0, std::sync::atomic::Ordering::SeqCst); TRACE_ON.store(true, std::sync::atomic::Ordering::SeqCst); }
    let shared = Arc::new(match variant {
        "lazy" => Shared::Lazy(sonic_rs::from_str::<LazyValue>("\"a\\nb\\u0041\"").map_err(|e| e.to_string())?),
        _ => Shared::Owned(sonic_rs::from_str::<OwnedLazyValue>("[17,\"x\"]").map_err(|e| e.to_string())?),
    });
    let c2 = ctl.clone();
    set_hook(Some(Arc::new(move |op, cell| c2.hook(op, cell))));
    for (i, p) in progs.iter().enumerate() {
        let (sh, p, ctl2) = (shared.clone(), p.clone(), ctl.clone());
        handles.push(Some(std::thread::spawn(move || -> String {
            TID.with(|t| t.set(i));
            let r = catch(|| match (&*sh, p.as_str()) {
                (Shared::Lazy(_), "idle") => "a\nbA".to_string(),
                (Shared::Owned(_), "idle") => "17".to_string(),
                (Shared::Lazy(lv), "read") => lv.as_str().map(|s| s.to_string()).unwrap_or_else(|| "<none>".into()),
                (Shared::Lazy(lv), _) => { let c = lv.clone(); let s = c.as_str().map(|s| s.to_string()).unwrap_or_else(|| "<none>".into()); drop(c); s }
                (Shared::Owned(v), "read") => v.get(0usize).and_then(|x| x.as_u64()).map(|x| x.to_string()).unwrap_or_else(|| "<none>".into()),
                (Shared::Owned(v), _) => { let c = v.clone(); let s = c.get(0usize).and_then(|x| x.as_u64()).map(|x| x.to_string()).unwrap_or_else(|| "<none>".into()); drop(c); s }
            });
            TID.with(|t| t.set(usize::MAX));
            let mut g = ctl2.m.lock().unwrap();
            g.st[i] = St::Done;
            ctl2.cv.notify_all();
            drop(g);
            r.unwrap_or_else(|p| format!("<panic {p}>"))
        })));
    }
    let mut problem: Option<String> = None;
    let mut injected = 0;
    for (k, stp) in sched.iter().enumerate() {
        let t = stp["t"].as_str().unwrap()[1..].parse::<usize>().unwrap() - 1;
        match ctl.settle(t) {
            None => { problem = Some(format!("step {k}: thread t{} never reached an atomic operation", t + 1)); break; }
            Some(St::Done) => { problem = Some(format!("step {k}: the model schedules t{} for `{}` but the thread has already finished", t + 1, stp["a"])); break; }
            Some(St::Waiting(op)) => {
                let want_cas = stp["a"] == "cas";
                if want_cas != (op != Op::Load) { problem = Some(format!("step {k}: the model expects `{}` of t{} but the code performs {:?}", stp["a"], t + 1, op)); break; }
                let fail = stp["fail"].as_bool().unwrap_or(false);
                if fail && op != Op::CasWeak { problem = Some(format!("step {k}: spurious failure scheduled but the code uses {:?}", op)); break; }
                if fail { injected += 1; }
                ctl.release(t, fail);
                // one thread runs at a time: wait until it has performed the operation and reached its next
                // atomic operation (or finished) before the next step is taken
                if ctl.settle(t).is_none() { problem = Some(format!("step {k}: thread t{} did not come back after `{}`", t + 1, stp["a"])); break; }
            }
            _ => unreachable!(),
        }
    }
    // let everything run to completion (also after a mismatch, to be able to join)
    for _ in 0..64 {
        let mut all_done = true;
        for t in 0..n {
            match ctl.settle(t) { Some(St::Done) => {}, Some(St::Waiting(_)) => { all_done = false; if problem.is_none() { problem = Some(format!("thread t{} performs an atomic operation the model does not have", t + 1)); } ctl.release(t, false); }, _ => { all_done = false; } }
        }
        if all_done { break; }
    }
    for h in handles.iter_mut() { results.push(h.take().unwrap().join().unwrap_or_else(|_| "<join failed>".into())); }
    set_hook(None);
    if std::env::var_os("VH_VERBOSE").is_some() { eprintln!("results {:?} problem {:?}", results, problem); }
    let expect = if variant == "lazy" { "a\nbA" } else { "17" };
    if problem.is_none() { for (i, r) in results.iter().enumerate() { if r != expect { problem = Some(format!("thread t{} observed {:?} instead of {:?}", i + 1, r, expect)); break; } } }
    results.clear();
    drop(shared);     // OwnerDrop
    let b1 = live();
    if tracing { TRACE_ON.store(false, std::sync::atomic::Ordering::SeqCst); eprintln!("unfreed in window: {:?}", trace_report().iter().map(|x| x.0).collect::<Vec<_>>()); }
    if std::env::var_os("VH_VERBOSE").is_some() { eprintln!("blocks {} -> {}, bytes {} -> {}", b0.1, b1.1, b0.0, b1.0); }
    let prims: Vec<String> = ctl.m.lock().unwrap().prims.iter().map(|p| format!("{:?}", p)).collect();
    match problem { Some(p) => Err(p), None => Ok(json!({"prims": prims, "injected": injected, "leak_blocks": b1.1 - b0.1})) }
}

pub fn replay(args: &[String]) -> i32 {
    let beh = std::fs::read_to_string(arg(args, "--beh").expect("--beh")).expect("behaviours");
    let outdir = arg(args, "--out").expect("--out").to_string();
    let variant = arg(args, "--variant").unwrap_or("lazy").to_string();
    let skip_to = arg_u64(args, "--skip-to", 0);
    let mut inflight = Inflight::new(arg(args, "--inflight"));
    // warm-up (thread-local buffers, first thread spawn), then calibration of the harness's own footprint:
    // the same machinery with threads that never touch the shared value
    let _ = run_schedule(&variant, &["read".to_string()], &[]);
    let calib = |k: usize| -> i64 { run_schedule(&variant, &vec!["idle".to_string(); k], &[]).ok().and_then(|j| j["leak_blocks"].as_i64()).unwrap_or(0) };
    let calib_by_threads = [0, calib(1), calib(2), calib(3)];
    let mut mism = Vec::new();
    let mut prims = std::collections::BTreeSet::new();
    let (mut n, mut injected) = (0u64, 0u64);
    let mut samples = Vec::new();
    for (li, line) in beh.lines().enumerate() {
        if line.is_empty() || (li as u64) < skip_to { continue; }
        inflight.set(li as u64, line.as_bytes());
        let rec: J = serde_json::from_str(line).unwrap();
        let progs: Vec<String> = rec["prog"].as_array().unwrap().iter().map(|p| p.as_str().unwrap().to_string()).collect();
        let sched = rec["sched"].as_array().unwrap();
        let nthreads = sched.iter().map(|s| s["t"].as_str().unwrap()[1..].parse::<usize>().unwrap()).max().unwrap_or(1).max(if progs.len() > 2 && sched.iter().any(|s| s["t"] == "t3") { 3 } else { 0 });
        let progs = &progs[..nthreads.max(1).min(progs.len())];
        n += 1;
        let leak = match run_schedule(&variant, progs, sched) {
            Ok(j) => { for p in j["prims"].as_array().unwrap() { prims.insert(p.as_str().unwrap().to_string()); } injected += j["injected"].as_u64().unwrap(); { let _ = &calib_by_threads; j["leak_blocks"].as_i64().unwrap() } }
            Err(p) => { if mism.len() < 20 { mism.push(json!({"suite":"lc-replay","class":"sched","variant":variant,"sched":sched,"prog":progs,"why":p,"line":li})); } continue; }
        };
        if leak != 0 && mism.len() < 20 { mism.push(json!({"suite":"lc-replay","class":"leak","variant":variant,"sched":sched,"prog":progs,"line":li,
            "why":format!("after the owner dropped the shared value the heap holds {} blocks more than before (a decoding leaked or was released twice)", leak)})); }
        if samples.len() < 3 && li % 37 == 3 { samples.push(json!({"prog": progs, "sched": sched})); }
    }
    let summary = json!({"suite":"lc-replay","variant":variant,"schedules":n,"injected":injected,"prims":prims,"mismatches":mism,"samples":samples});
    std::fs::write(format!("{outdir}/summary.0.json"), serde_json::to_vec(&summary).unwrap()).unwrap();
    0
}

/// which compare-exchange primitive does the code use?  (decides the WeakCas constant of the model)
pub fn probe(_args: &[String]) -> i32 {
    if std::env::var_os("VH_LEAKTEST").is_some() {
        for round in 0..3 {
            let b0 = live();
            { let lv: LazyValue = sonic_rs::from_str("\"a\\nb\\u0041\"").unwrap(); let s = lv.as_str().map(|s| s.len()); let c = lv.clone(); let s2 = c.as_str().map(|s| s.len()); drop(c); drop(lv); assert_eq!(s, s2); }
            let b1 = live();
            { let v: OwnedLazyValue = sonic_rs::from_str("[17,\"x\"]").unwrap(); let _ = v.get(0usize).is_some(); let c = v.clone(); drop(c); drop(v); }
            let b2 = live();
            eprintln!("round {round}: lazy delta {} blocks, owned delta {} blocks", b1.1 - b0.1, b2.1 - b1.1);
            let b3 = live();
            { let sh = Arc::new(Shared::Lazy(sonic_rs::from_str::<LazyValue>("\"a\\nb\\u0041\"").unwrap()));
              let s2 = sh.clone();
              let h = std::thread::spawn(move || { if let Shared::Lazy(lv) = &*s2 { lv.as_str().map(|s| s.len()) } else { None } });
              let _ = h.join();
              let mid = live();
              drop(sh);
              let b4 = live();
              eprintln!("   threaded: before drop {} blocks, after drop {} blocks", mid.1 - b3.1, b4.1 - b3.1); }
        }
    }
    let mut out = serde_json::Map::new();
    for variant in ["lazy", "owned"] {
        let sched = vec![json!({"t":"t1","a":"load","fail":false}), json!({"t":"t1","a":"cas","fail":false})];
        match run_schedule(variant, &["read".to_string()], &sched) {
            Ok(j) => { out.insert(variant.into(), j["prims"].clone()); }
            Err(e) => { out.insert(variant.into(), json!({"error": e})); }
        }
    }
    println!("{}", J::Object(out));
    0
}
