//! Replay of Dom.tla behaviours (S->I): every history emitted by TLC is executed on real `Value`s held in
//! slots; after every step the contents of every slot (public read API, keys sorted) and the number of
//! live arenas (hook: released-arena counter) are compared with the specification's expectation.
use crate::util::*;
use serde_json::{json, Value as J};
use sonic_rs::{json as sjson, JsonContainerTrait, JsonValueMutTrait, JsonValueTrait, PointerNode, Value};
use std::collections::BTreeMap;
use std::sync::atomic::Ordering;

/// plain dump in the shape of the spec's plain trees: objects as (sorted) maps
pub fn plain(v: &Value) -> J {
    if v.is_null() { return json!({"t":"null"}); }
    if let Some(b) = v.as_bool() { return json!({"t":"bool","b":b}); }
    if let Some(n) = v.as_i64() { return json!({"t":"num","n":n}); }
    if let Some(n) = v.as_f64() { return json!({"t":"num","f":n}); }
    if let Some(s) = v.as_str() { return json!({"t":"str","s":s}); }
    if let Some(a) = v.as_array() { return json!({"t":"arr","e": a.iter().map(plain).collect::<Vec<_>>()}); }
    if let Some(o) = v.as_object() {
        let mut m = BTreeMap::new();
        let mut n = 0;
        for (k, x) in o.iter() { m.insert(k.to_string(), plain(x)); n += 1; }
        if n != o.len() || m.len() != n { return json!({"t":"obj-inconsistent","len":o.len(),"iter":n,"distinct":m.len()}); }
        // cross-check keyed access against iteration
        for k in m.keys() { if o.get(k).map(plain).as_ref() != m.get(k) || !o.contains_key(k) || o.get_key_value(k).map(|(kk, x)| (kk.to_string(), plain(x))) != m.get(k).map(|x| (k.clone(), x.clone())) { return json!({"t":"obj-inconsistent","key":k}); } }
        if o.contains_key(&"\u{1}no-such-key") || o.get_key_value(&"\u{1}no-such-key").is_some() { return json!({"t":"obj-inconsistent","key":"phantom"}); }
        return json!({"t":"obj","m":m});
    }
    json!({"t":"unknown"})
}
/// normalise the spec's JSON (empty function prints as [])
fn norm(j: &J) -> J {
    match j {
        J::Object(o) => {
            let mut m = serde_json::Map::new();
            for (k, v) in o { m.insert(k.clone(), if k == "m" && v.is_array() && v.as_array().unwrap().is_empty() { json!({}) } else { norm(v) }); }
            J::Object(m)
        }
        J::Array(a) => J::Array(a.iter().map(norm).collect()),
        _ => j.clone(),
    }
}
fn ptr_of(p: &J) -> Vec<PointerNode> {
    p.as_array().unwrap().iter().map(|e| if e["k"] == "key" { PointerNode::Key(faststr::FastStr::new(e["s"].as_str().unwrap())) } else { PointerNode::Index(e["i"].as_u64().unwrap() as usize) }).collect()
}
/// three ways of reaching `&mut Value` at a path (all of them promote along the way)
fn nav<'a>(v: &'a mut Value, p: &[PointerNode], how: usize) -> Option<&'a mut Value> {
    if p.is_empty() && how % 3 != 0 { return Some(v); }
    match how % 3 {
        // the empty path denotes the value itself (as pointer(&[]) does)
        0 => v.pointer_mut(p.iter()),
        1 => { let mut cur = v; for e in p { cur = match e { PointerNode::Key(k) => cur.get_mut(k.as_str())?, PointerNode::Index(i) => cur.get_mut(*i)? }; } Some(cur) }
        _ => { let mut cur = v; for e in p { cur = match e { PointerNode::Key(k) => &mut cur[k.as_str()], PointerNode::Index(i) => &mut cur[*i] }; } Some(cur) }
    }
}
fn slot_ix(s: &J) -> usize { s.as_str().unwrap()[1..].parse::<usize>().unwrap() - 1 }

/// one deserializer over a stream text (the text is owned here; `de` borrows it and is dropped first)
struct DeSess { de: Option<sonic_rs::Deserializer<sonic_rs::Read<'static>>>, _text: Box<[u8]> }
impl Drop for DeSess { fn drop(&mut self) { self.de = None; } }
// only ever used from the replay's main thread (de_* steps are not moved to worker threads); World as a whole is handed to them
unsafe impl Send for DeSess {}
struct World { slots: Vec<Option<Value>>, created: usize, freed0: usize, de: Option<DeSess> }
impl World {
    fn live(&self) -> i64 { self.created as i64 - (sonic_rs::value::shared::VERIF_SHARED_FREED.load(Ordering::SeqCst) - self.freed0) as i64 }
}

/// executes one step; returns Err(description) when the implementation deviates in the step itself
fn step(w: &mut World, op: &J, how: usize, rest: &[J]) -> Result<(), String> {
    let name = op["op"].as_str().unwrap();
    match name {
        "de_next" => {
            let s = slot_ix(&op["s"]);
            if w.de.is_none() {
                // the stream: a leading scalar (consumed here: it is the one value parsed in place), then the texts of the
                // coming de_next steps in order, a malformed value where the history has de_bad, and more values after it
                let mut text = b"0 ".to_vec();
                for o in std::iter::once(op).chain(rest.iter()) {
                    match o["op"].as_str().unwrap() {
                        "de_next" => { text.extend_from_slice(o["text"].as_str().unwrap().as_bytes()); text.push(b' '); }
                        "de_bad" => { text.extend_from_slice(b"nul {\"id\":\"OTHER\",\"tags\":[\"x\",\"y\"]} \"last\" [7,[8]] "); break; }
                        "de_close" => break,
                        _ => {}
                    }
                }
                let text: Box<[u8]> = text.into_boxed_slice();
                // the deserializer borrows the boxed text, which lives (at a stable address) until after the deserializer is dropped
                let slice: &'static [u8] = unsafe { std::slice::from_raw_parts(text.as_ptr(), text.len()) };
                let mut de = sonic_rs::Deserializer::from_slice(slice);
                let first: Value = de.deserialize().map_err(|e| format!("de_next: leading scalar: {e}"))?;
                drop(first);
                w.created += 2;       // the leading scalar's own arena (made for the in-place parse, released with it) and the arena
                                      // shared by all later values of this deserializer, which comes into being with the next call
                w.de = Some(DeSess { de: Some(de), _text: text });
            }
            let de = w.de.as_mut().unwrap().de.as_mut().unwrap();
            let v: Value = de.deserialize().map_err(|e| format!("de_next: {e}"))?;
            w.slots[s] = Some(v);
        }
        "de_bad" => {
            let de = w.de.as_mut().ok_or("de_bad: no deserializer")?.de.as_mut().unwrap();
            if de.deserialize::<Value>().is_ok() { return Err("de_bad: the malformed value was accepted".into()); }
            // the caller keeps going (skipping a bad record): whatever these calls return, values handed out before stay intact
            for _ in 0..4 { let r = de.deserialize::<Value>(); if let Ok(v) = r { let _ = plain(&v); drop(v); } }
        }
        "de_close" => { w.de = None; }
        "parse" => { let s = slot_ix(&op["s"]); let v: Value = sonic_rs::from_str(op["text"].as_str().unwrap()).map_err(|e| e.to_string())?; w.created += 1; w.slots[s] = Some(v); }
        "parse_bad" => {
            // rejected only after the arena was built: must return Err and leave nothing alive
            let text: Vec<u8> = op["text"].as_str().unwrap().bytes().map(|b| if b == b'?' { 0xff } else { b }).collect();
            w.created += 1;
            if sonic_rs::from_slice::<Value>(&text).is_ok() { return Err("a document the reference rejects was accepted".into()); }
        }
        // every way the API offers to make such a value without parsing
        "new" => { let s = slot_ix(&op["s"]); w.slots[s] = Some(match (op["what"].as_str().unwrap(), how % 4) {
            ("arr", 0) => sjson!([]), ("arr", 1) => Value::new_array_with(0), ("arr", 2) => Value::new_array_with(5), ("arr", _) => sonic_rs::Array::new().into_value(),
            ("obj", 0) => sjson!({}), ("obj", 1) => Value::new_object_with(0), ("obj", 2) => Value::new_object_with(5), ("obj", _) => sonic_rs::Object::new().into_value(),
            ("null", 0) => sjson!(null), ("null", 1) => Value::new_null(), ("null", 2) => Value::default(), ("null", _) => Value::new(),
            (_, 0) => sjson!(7), (_, 1) => Value::new_u64(7), (_, 2) => Value::from(7u8), (_, _) => Value::new_i64(7) }); }
        "build" => { let s = slot_ix(&op["s"]); w.slots[s] = Some(match (op["what"].as_str().unwrap(), how % 4) {
            ("obj1", 0) => sjson!({"a": 8}), ("obj1", 1) => { let mut o = Value::new_object_with(1); o.insert("a", Value::new_u64(8)); o }
            ("obj1", 2) => sonic_rs::object! {"a": 8}.into_value(), ("obj1", _) => { let mut o = sonic_rs::Object::new(); o.insert(&"a", 8); o.into_value() }
            (_, 0) => sjson!([8, 9]), (_, 1) => sonic_rs::array![8, 9].into_value(), (_, 2) => Value::from(vec![8, 9]),
            (_, _) => { let mut a = Value::new_array_with(2); a.append_value(Value::new_u64(8)); a.append_value(Value::new_i64(9)); a } }); }
        "clone" => {
            let (s, t) = (slot_ix(&op["s"]), slot_ix(&op["t"]));
            let p = ptr_of(&op["p"]);
            let c = { let src = w.slots[s].as_ref().ok_or("clone of empty slot")?; if p.is_empty() { src.clone() } else { src.pointer(p.iter()).ok_or("clone: path does not resolve")?.clone() } };
            w.slots[t] = Some(c);
        }
        "drop" => { let s = slot_ix(&op["s"]); w.slots[s] = None; }
        "take" => { let (s, t) = (slot_ix(&op["s"]), slot_ix(&op["t"])); let x = w.slots[s].as_mut().ok_or("take of empty slot")?.take(); w.slots[t] = Some(x); }
        "append" => {
            let (s, src) = (slot_ix(&op["s"]), slot_ix(&op["src"]));
            let p = ptr_of(&op["p"]);
            let mut other = w.slots[src].take().ok_or("append: empty source")?;
            let r = (|| -> Result<(), String> {
                let tgt = nav(w.slots[s].as_mut().ok_or("append: empty target")?, &p, how).ok_or("append: path does not resolve")?;
                if op["kind"] == "arr" { tgt.as_array_mut().ok_or("not an array")?.append(other.as_array_mut().ok_or("source not an array")?); }
                else { tgt.as_object_mut().ok_or("not an object")?.append(other.as_object_mut().ok_or("source not an object")?); }
                Ok(())
            })();
            w.slots[src] = Some(other);
            r?;
        }
        "probe" => {
            // a lookup step that does not resolve: None, and (checked by the observation after the step) nothing changes
            let s = slot_ix(&op["s"]);
            let p = ptr_of(&op["p"]);
            let e = ptr_of(&json!([op["e"]]));
            let tgt = nav(w.slots[s].as_mut().ok_or("probe: empty slot")?, &p, how).ok_or("probe: path does not resolve")?;
            let hit = if how % 2 == 0 { tgt.pointer_mut(e.iter()).is_some() } else { match &e[0] { PointerNode::Key(k) => tgt.get_mut(k.as_str()).is_some(), PointerNode::Index(i) => tgt.get_mut(*i).is_some() } };
            if hit { return Err("probe: a lookup the reference cannot resolve returned a value".into()); }
            // IndexMut where it is documented to panic (an index into anything but an array that is long enough; a key into a value
            // that is neither object nor null): the panic is the rejection, and (checked by the observation) nothing changes
            let wrong_kind = match &e[0] { PointerNode::Index(_) => true, PointerNode::Key(_) => !tgt.is_object() && !tgt.is_null() };
            if wrong_kind && how % 3 == 2 {
                let r = match &e[0] { PointerNode::Index(i) => { let i = *i; catch(move || { tgt[i] = sjson!(1); }) } PointerNode::Key(k) => { let k = k.to_string(); catch(move || { tgt[k.as_str()] = sjson!(1); }) } };
                if r.is_ok() { return Err("probe: IndexMut accepted an index the reference rejects".into()); }
            }
        }
        "index_null" => {
            // value[key] = x on a null: it becomes {key: x}
            let s = slot_ix(&op["s"]);
            let p = ptr_of(&op["p"]);
            let key = op["key"].as_str().unwrap().to_string();
            let arg: Value = match op["src"].as_str().unwrap() { "lit" => sjson!(7), q => w.slots[slot_ix(&json!(q))].take().ok_or("index_null: empty source slot")? };
            let tgt = nav(w.slots[s].as_mut().ok_or("index_null: empty slot")?, &p, how).ok_or("index_null: path does not resolve")?;
            if !tgt.is_null() { return Err("index_null: the value at the path is not null".into()); }
            catch(move || { tgt[key.as_str()] = arg; }).map_err(|p| format!("index_null: panicked: {p}"))?;
        }
        "split_off" => {
            let (s, o) = (slot_ix(&op["s"]), slot_ix(&op["o"]));
            let p = ptr_of(&op["p"]);
            let i = op["i"].as_u64().unwrap() as usize;
            let want_ok = op["ok"].as_bool().unwrap();
            let r = { let tgt = nav(w.slots[s].as_mut().ok_or("split_off: empty slot")?, &p, how).ok_or("split_off: path does not resolve")?;
                      let a = tgt.as_array_mut().ok_or("not an array")?; catch(move || a.split_off(i)) };
            match r {
                Ok(tail) => { if !want_ok { return Err("split_off: the reference rejects this call but the implementation accepted it".into()); } w.slots[o] = Some(tail.into_value()); }
                Err(p) => { if want_ok { return Err(format!("split_off: panicked: {p}")); } }
            }
        }
        "mut" => {
            let s = slot_ix(&op["s"]);
            let p = ptr_of(&op["p"]);
            let f = op["f"].as_str().unwrap();
            let arg: Value = match op["src"].as_str().unwrap() { "lit" => sjson!(7), "null" => Value::default(), q => w.slots[slot_ix(&json!(q))].take().ok_or("mut: empty source slot")? };
            let want_ok = op["ok"].as_bool().unwrap();
            let o = slot_ix(&op["o"]);
            let out: Result<Vec<Value>, String> = {
                let tgt = nav(w.slots[s].as_mut().ok_or("mut: empty slot")?, &p, how).ok_or("mut: path does not resolve")?;
                if op["kind"] == "arr" {
                    let i = op["arg"].as_u64().unwrap() as usize;
                    let a = tgt.as_array_mut().ok_or("not an array")?;
                    // calls the reference rejects panic as documented (index out of bounds): caught, contents must be unchanged
                    catch(move || -> Vec<Value> { match f {
                        "push" => { a.push(arg); vec![] }
                        "pop" => a.pop().into_iter().collect(),
                        "insert" => { a.insert(i, arg); vec![] }
                        "remove" => { a.remove(i); vec![] }
                        "swap_remove" => vec![a.swap_remove(i)],
                        "truncate" => { a.truncate(i); vec![] }
                        "clear" => { a.clear(); vec![] }
                        "resize" => { if how % 2 == 1 && op["src"] == "lit" { a.resize_with(i, || sjson!(7)); drop(arg); } else { a.resize(i, arg); } vec![] }
                        "extend_from_within" => { a.extend_from_within(0..i); vec![] }
                        "set" => { a[i] = arg; vec![] }
                        "take_elem" => vec![a[i].take()],
                        "drain" => a.drain(..i).collect(),
                        "retain_even" => { let mut k = 0usize; if how % 2 == 1 { a.retain_mut(|_| { k += 1; k % 2 == 1 }); } else { a.retain(|_| { k += 1; k % 2 == 1 }); } vec![] }
                        "into_iter" => {
                            // the owning iterator: what it reports about the elements not yet yielded, before and after the first one
                            let n = a.len();
                            let mut it = std::mem::take(a).into_iter();
                            assert_eq!(it.len(), n, "IntoIter::len");
                            assert_eq!(it.size_hint(), (n, Some(n)), "IntoIter::size_hint");
                            assert_eq!(it.as_slice().len(), n, "IntoIter::as_slice before the first element");
                            let mut outv = Vec::new();
                            if let Some(x) = it.next() { outv.push(x); assert_eq!(it.len(), n - 1, "IntoIter::len after next"); }
                            if let Some(x) = it.next_back() { let rest: Vec<Value> = it.by_ref().collect(); outv.extend(rest); outv.push(x); }
                            assert!(it.next().is_none() && it.next_back().is_none(), "IntoIter is fused");
                            // the array left behind is the empty default: its own iterator has nothing and says so
                            let mut it2 = std::mem::take(a).into_iter();
                            assert_eq!(it2.as_slice().len(), 0, "IntoIter::as_slice of an empty array");
                            assert_eq!(it2.as_mut_slice().len(), 0, "IntoIter::as_mut_slice of an empty array");
                            assert!(it2.next().is_none());
                            outv
                        }
                        _ => panic!("unknown array op {f}"),
                    } })
                } else {
                    let key = op["arg"].as_str().unwrap().to_string();
                    if how % 2 == 0 || f != "set" {
                        let m = tgt.as_object_mut().ok_or("not an object")?;
                        catch(move || -> Vec<Value> { match f {
                            "insert" => m.insert(&key, arg).into_iter().collect(),
                            "remove" => if how % 3 == 1 { match m.remove_entry(&key) { Some((k, v)) => { assert_eq!(k, key.as_str(), "remove_entry: key"); vec![v] } None => vec![] } } else { m.remove(&key).into_iter().collect() },
                            "clear" => { m.clear(); vec![] }
                            "or_insert" => { match how % 3 { 0 => { m.entry(&key).or_insert(arg); } 1 => { m.entry(&key).or_insert_with(move || arg); } _ => { let want = key.clone(); m.entry(&key).or_insert_with_key(move |k| { assert_eq!(k, want.as_str(), "or_insert_with_key: key"); arg }); } } vec![] }
                            "set" => { if how % 4 == 2 { match m.entry(&key) { sonic_rs::value::object::Entry::Occupied(e) => { *e.into_mut() = arg; } sonic_rs::value::object::Entry::Vacant(e) => { e.insert(arg); } } } else { m.insert(&key, arg); } vec![] }
                            "entry_key" => { let e = m.entry(&key); assert_eq!(e.key(), key.as_str(), "Entry::key"); vec![] }
                            "and_modify" => { m.entry(&key).and_modify(|v| *v = arg); vec![] }
                            "entry_remove" => match m.entry(&key) { sonic_rs::value::object::Entry::Occupied(e) => vec![e.remove()], sonic_rs::value::object::Entry::Vacant(e) => { assert_eq!(e.key(), key.as_str(), "VacantEntry::key"); vec![] } },
                            "retain_not" => { m.retain(|k, _| k != key.as_str()); vec![] }
                            _ => panic!("unknown object op {f}"),
                        } })
                    } else {
                        catch(move || { tgt[key.as_str()] = arg; vec![] })      // IndexMut: index-or-insert, then assign
                    }
                }
            };
            match out {
                Ok(v) => {
                    if !want_ok { return Err(format!("{f}: the reference rejects this call but the implementation accepted it")); }
                    let outs = op["outs"].as_array().cloned().unwrap_or_default();
                    if outs.len() != v.len() && !(f == "set" && op["kind"] == "obj") { return Err(format!("{f}: handed out {} values but the reference {}", v.len(), outs.len())); }
                    for (k, x) in v.iter().enumerate() {
                        if k < outs.len() && norm(&outs[k]) != plain(x) { return Err(format!("{f}: handed out {} as value {} but the reference says {}", plain(x), k, outs[k])); }
                    }
                    if let Some(x) = v.into_iter().next() { if o != s && w.slots[o].is_none() { w.slots[o] = Some(x); } }
                }
                Err(p) => { if want_ok { return Err(format!("{f}: panicked: {p}")); } }
            }
        }
        _ => return Err(format!("unknown op {name}")),
    }
    Ok(())
}

pub fn replay(args: &[String]) -> i32 {
    let beh = std::fs::read_to_string(arg(args, "--beh").expect("--beh")).expect("behaviours");
    let outdir = arg(args, "--out").expect("--out").to_string();
    let shard = arg_u64(args, "--shard", 0);
    let nshards = arg_u64(args, "--nshards", 1);
    let skip_to = arg_u64(args, "--skip-to", 0);
    let seed = arg_u64(args, "--seed", 1);
    // --threads 1: every step runs on a fresh OS thread (a value is created on one thread, mutated on another, dropped on a third),
    // and the values left at the end are handed to concurrent threads that read them in full and drop them after a barrier
    let threaded = arg_u64(args, "--threads", 0) == 1;
    let mut inflight = Inflight::new(arg(args, "--inflight"));
    let mut mism: Vec<J> = Vec::new();
    let mut counts = std::collections::HashMap::<String, u64>::new();
    let (mut hcount, mut steps, mut promos) = (0u64, 0u64, 0u64);
    let mut samples = Vec::new();
    // warm-up: thread-local parse buffers, the panic-message slot
    { let _: Value = sonic_rs::from_str("{\"a\":[1,\"s\"],\"b\":\"t\"}").unwrap(); let _ = catch(|| { let v: Vec<u8> = vec![]; v[1] });
      // one-time process-wide initialisations (hash-map random state): build, mutate and drop an owned object and array once
      let mut o = sjson!({"a": 8}); o["z"] = sjson!([1]); let mut a = sjson!([8, 9]); a.as_array_mut().unwrap().push(o.clone()); }
    let mut leak_reported = false;
    for (li, line) in beh.lines().enumerate() {
        if line.is_empty() || (li as u64) % nshards != shard || (li as u64) < skip_to { continue; }
        inflight.set(li as u64, line.as_bytes());
        let rec: J = serde_json::from_str(line).expect("behaviour");
        let hist = rec["hist"].as_array().unwrap();
        let obs = rec["obs"].as_array().unwrap();
        hcount += 1;
        let how = (seed as usize).wrapping_add(li);
        for op in hist.iter() { *counts.entry(format!("{}{}", op["op"].as_str().unwrap(), op.get("f").and_then(|f| f.as_str()).map(|f| format!(":{}", f)).unwrap_or_default())).or_default() += 1; }
        let b0 = live();
        let mut failed = false;
        let mut w = World { slots: vec![None, None, None, None], created: 0, freed0: sonic_rs::value::shared::VERIF_SHARED_FREED.load(Ordering::SeqCst), de: None };
        let mut had_mut_on_parsed = false;
        for (i, op) in hist.iter().enumerate() {
            steps += 1;
            if op["op"] == "mut" || op["op"] == "append" { had_mut_on_parsed = true; }
            let rest = &hist[i + 1..];
            let r = if threaded && !op["op"].as_str().unwrap().starts_with("de_") { std::thread::scope(|sc| sc.spawn(|| catch(|| step(&mut w, op, how, rest))).join().unwrap_or_else(|_| Err("thread died".into()))) } else { catch(|| step(&mut w, op, how, rest)) };
            let problem = match r { Ok(Ok(())) => None, Ok(Err(e)) => Some(e), Err(p) => Some(format!("panic: {p}")) };
            let mut why = problem;
            let mut arena_mismatch = false;
            if why.is_none() {
                // observation: contents of every slot, number of live arenas
                for (sname, want) in obs[i]["m"].as_object().unwrap() {
                    let got = match &w.slots[slot_ix(&json!(sname))] { Some(v) => catch(|| plain(v)).unwrap_or_else(|p| json!({"t":"panic","msg":p})), None => json!({"t":"none"}) };
                    if got != norm(want) { why = Some(format!("slot {sname} holds {got} but the reference model says {want}")); break; }
                }
            }
            if why.is_none() {
                let live_now = w.live();
                if live_now != obs[i]["live"].as_i64().unwrap() { arena_mismatch = true; why = Some(format!("{} arenas are alive but the model says {}", live_now, obs[i]["live"])); }
            }
            if let Some(wy) = why {
                failed = true;
                if mism.len() < 40 { mism.push(json!({"suite":"dom-replay","class": if arena_mismatch { "arena" } else { "dom" },"step":i,"op":op,"hist":hist,"why":wy,"line":li})); }
                break;
            }
        }
        if had_mut_on_parsed { promos += 1; }
        if threaded && !failed { w.de = None; }
        if threaded && !failed {
            // concurrent readers + droppers: each remaining value goes to its own thread (the slot's clone stays with a second thread),
            // all start together, read the whole value, then drop it; the expectation is the model's last observation
            let last = &obs[hist.len() - 1]["m"];
            let mut jobs: Vec<(String, Value)> = Vec::new();
            for (i, sl) in w.slots.iter_mut().enumerate() { if let Some(v) = sl.take() { let name = format!("s{}", i + 1); jobs.push((name.clone(), v.clone())); jobs.push((name, v)); } }
            let n = jobs.len();
            if n > 0 {
                let barrier = std::sync::Barrier::new(n);
                let bad: Vec<String> = std::thread::scope(|sc| {
                    let hs: Vec<_> = jobs.into_iter().enumerate().map(|(k, (name, v))| { let b = &barrier; let want = norm(&last[&name]); sc.spawn(move || {
                        b.wait();
                        let got = catch(|| plain(&v)).unwrap_or_else(|p| json!({"t":"panic","msg":p}));
                        if k % 2 == 0 { drop(v); std::thread::yield_now(); } else { std::thread::yield_now(); drop(v); }
                        if got != want { Some(format!("thread {k}: slot {name} read as {got} but the reference model says {want}")) } else { None }
                    }) }).collect();
                    hs.into_iter().filter_map(|h| h.join().unwrap_or(Some("reader thread died".into()))).collect()
                });
                if let Some(b) = bad.into_iter().next() { failed = true; if mism.len() < 40 { mism.push(json!({"suite":"dom-replay","class":"dom","step":hist.len(),"hist":hist,"why":format!("concurrent read/drop phase: {b}"),"line":li})); } }
                if !failed && w.live() != 0 { failed = true; if mism.len() < 40 { mism.push(json!({"suite":"dom-replay","class":"arena","step":hist.len(),"hist":hist,"why":format!("after every thread dropped its values {} arenas are still alive", w.live()),"line":li})); } }
            }
        }
        drop(w);
        // all values dropped: the heap returns exactly to its level before the history (AllDroppedEmpty)
        let b1 = live();
        if !failed && !leak_reported && b1.1 != b0.1 {
            leak_reported = true;
            mism.push(json!({"suite":"dom-replay","class":"leak","hist":hist,"why":format!("after dropping every value the heap holds {} blocks / {} bytes more than before the history", b1.1 - b0.1, b1.0 - b0.0),"line":li}));
        }
        if samples.len() < 3 && li % 4001 == 7 { samples.push(json!({"hist": hist})); }
    }
    let summary = json!({"suite":"dom-replay","histories":hcount,"steps":steps,"nontrivial":promos,"per_op":counts,"mismatches":mism,"samples":samples});
    std::fs::write(format!("{outdir}/summary.{shard}.json"), serde_json::to_vec(&summary).unwrap()).unwrap();
    0
}

/// Scale concretisation: the behaviours  parse [0, X] / parse {"k":0, "y":X} / a long string  with the repeated part iterated past
/// the widths of the length and index fields of a node (2^16, 2^24 children / bytes).  Expected: what the short behaviour
/// says, member for member: length, the arena-node members at the far end read in place, cloned out and read after the
/// document is dropped, and the canonical text reproduced byte for byte by to_string.
pub fn big(args: &[String]) -> i32 {
    let out = arg(args, "--out").expect("--out").to_string();
    let quick = arg(args, "--tier") != Some("thorough");
    let mut mism: Vec<J> = Vec::new();
    let mut cases = 0u64;
    let counts: &[usize] = if quick { &[(1 << 16) + 3, (1 << 24) + 5] } else { &[(1 << 16) - 1, 1 << 16, (1 << 16) + 3, (1 << 24) - 1, 1 << 24, (1 << 24) + 5, (1 << 25) + 1] };
    let tail = "\"s\",[1,\"t\"],{\"k\":\"v\"},\"é\",-2.5";
    let mut check = |name: String, text: String, f: &dyn Fn(&Value) -> Result<(), String>| {
        cases += 1;
        let r = catch(|| -> Result<(), String> {
            let v: Value = sonic_rs::from_str(&text).map_err(|e| format!("rejected: {e}"))?;
            f(&v)?;
            let s = sonic_rs::to_string(&v).map_err(|e| e.to_string())?;
            if s != text { return Err(format!("to_string differs from the canonical input (lengths {} vs {})", s.len(), text.len())); }
            Ok(())
        });
        let why = match r { Ok(Ok(())) => return, Ok(Err(e)) => e, Err(p) => format!("panic: {p}") };
        mism.push(json!({"suite":"big","class":"big","case":name,"why":format!("{name}: {why}")}));
    };
    for &n in counts {
        // array with n leading zeros, then arena nodes
        let mut t = String::with_capacity(2 * n + 64);
        t.push('[');
        for _ in 0..n { t.push_str("0,"); }
        t.push_str(tail); t.push(']');
        check(format!("array of {} + 5 elements", n), t, &|v| {
            let a = v.as_array().ok_or("not an array")?;
            if a.len() != n + 5 { return Err(format!("len {}", a.len())); }
            if a[n].as_str() != Some("s") || a[n + 1][1].as_str() != Some("t") || a[n + 2]["k"].as_str() != Some("v") || a[n + 3].as_str() != Some("é") || a[n + 4].as_f64() != Some(-2.5) { return Err("far members read wrongly in place".into()); }
            if v.pointer(&[PointerNode::Index(n + 2), PointerNode::Key("k".into())]).and_then(|x| x.as_str()) != Some("v") { return Err("pointer to a far member".into()); }
            let keep: Vec<Value> = (n..n + 5).map(|i| a[i].clone()).collect();
            let copy = v.clone();
            if copy.as_array().map(|c| c.len()) != Some(n + 5) { return Err("clone of the document".into()); }
            drop(copy);
            if sonic_rs::to_string(&keep).map_err(|e| e.to_string())? != format!("[{tail}]") { return Err("members cloned out of the far end read wrongly".into()); }
            Ok(())
        });
        if n <= (1 << 24) + 5 {
            // object with n/2 leading members
            let m = n / 2;
            let mut t = String::with_capacity(8 * m + 64);
            t.push('{');
            for i in 0..m { t.push_str("\"k"); t.push_str(&(i % 10).to_string()); t.push_str("\":0,"); }
            t.push_str("\"y\":[1,\"t\"],\"z\":\"s\"}");
            check(format!("object of {} + 2 members", m), t, &|v| {
                let o = v.as_object().ok_or("not an object")?;
                if o.len() != m + 2 { return Err(format!("len {}", o.len())); }
                if v["z"].as_str() != Some("s") || v["y"][1].as_str() != Some("t") { return Err("far members read wrongly in place".into()); }
                let (last_k, last_v) = o.iter().last().ok_or("empty")?;
                if last_k != "z" || last_v.as_str() != Some("s") { return Err("last member through iteration".into()); }
                let keep = v["y"].clone();
                if sonic_rs::to_string(&keep).map_err(|e| e.to_string())? != "[1,\"t\"]" { return Err("member cloned out of the far end".into()); }
                Ok(())
            });
            // one long string (value and key)
            let s: String = std::iter::repeat('a').take(n).collect();
            check(format!("string of {} bytes", n), format!("[\"{s}\",{{\"{s}\":\"x\"}},\"end\"]"), &|v| {
                if v[0].as_str().map(|x| x.len()) != Some(n) || v[1][s.as_str()].as_str() != Some("x") || v[2].as_str() != Some("end") { return Err("long string / key read wrongly".into()); }
                Ok(())
            });
        }
    }
    // documents of growing (and then shrinking) size parsed one after the other on the same thread, then on a fresh thread each: the
    // thread-local node buffer is reused, grown and released along the way
    let ramp: &[usize] = &[1 << 10, 40_000, 99_000, 130_000, 190_000, 197_000, 260_000, 400_000, 120_000, 5, 1 << 20, 7];
    let mk = |n: usize| -> String { let mut t = String::with_capacity(3 * n + 16); t.push('['); for i in 0..n { if i > 0 { t.push(','); } t.push_str(if i % 7 == 3 { "\"s\"" } else { "0" }); } t.push(']'); t };
    for same_thread in [true, false] {
        let texts: Vec<String> = ramp.iter().map(|n| mk(*n)).collect();
        let run = move || -> Result<(), String> { for (k, t) in texts.iter().enumerate() { let v: Value = sonic_rs::from_str(t).map_err(|e| format!("ramp {k}: {e}"))?; if v.as_array().map(|a| a.len()) != Some(ramp[k]) { return Err(format!("ramp {k}: wrong length")); }
                let lv: sonic_rs::OwnedLazyValue = sonic_rs::from_str(t).map_err(|e| format!("ramp {k} (lazy): {e}"))?; drop(lv); } Ok(()) };
        cases += 1;
        let r = if same_thread { catch(run) } else { std::thread::spawn(move || catch(run)).join().unwrap_or(Err("thread died".into())) };
        match r { Ok(Ok(())) => {}, Ok(Err(e)) => mism.push(json!({"suite":"big","class":"big","case":"ramp","why":e})), Err(p) => mism.push(json!({"suite":"big","class":"big","case":"ramp","why":format!("ramp: panic: {p}")})) }
    }
    let summary = json!({"suite":"big","cases":cases,"mismatches":mism,"counts":counts});
    std::fs::create_dir_all(&out).ok();
    std::fs::write(format!("{out}/summary.0.json"), serde_json::to_vec(&summary).unwrap()).unwrap();
    0
}
