//! Skipper.tla bound to the real bitmap container skipper (hook: sonic_rs::verif::verif_skip): the harness drives the
//! per-block step exactly as `skip_container` does (64-byte blocks, zero-padded tail) from every container start of
//! generated documents and logs the carried state before and after every block; the escape-mask routine is logged on
//! backslash patterns around word boundaries.  Trace_Skipper.tla replays the blocks through the specification.
use crate::util::*;
use serde_json::{json, Value as J};
use sonic_rs::verif::verif_skip::{escaped_mask, skip_block, State};

fn st_j(s: &State) -> J { json!([if s.0 == 0 { 0 } else if s.0 == u64::MAX { 1 } else { 2 }, s.1, s.2, s.3]) }
fn bits(x: u64) -> Vec<u8> { (0..64).map(|i| ((x >> i) & 1) as u8).collect() }

/// documents for the skipper: strings full of brackets, quotes and backslash runs, positioned around block edges
fn doc(rng: &mut Rng) -> Vec<u8> {
    match rng.below(4) {
        0 => crate::lg::stress_doc(rng).0,
        1 => { let mut g = crate::jt::Gen { rng }; g.doc() }
        _ => {
            // nested containers with string members whose content is drawn from the critical alphabet
            let mut v = Vec::new();
            let depth = rng.range(1, 4);
            for _ in 0..depth { v.push(if rng.chance(1, 2) { b'[' } else { b'{' }); if *v.last().unwrap() == b'{' { v.extend_from_slice(b"\"k\":"); } }
            let items = rng.range(1, 5);
            for i in 0..items {
                if i > 0 { v.push(b','); }
                v.push(b'"');
                let pad = if rng.chance(1, 3) { rng.below(140) } else { *rng.pick(&[28usize, 30, 31, 32, 33, 60, 61, 62, 63, 64, 65, 94, 95, 96, 126, 127, 128, 129]) };
                for _ in 0..pad { v.push(*rng.pick(b"abc []{}:,")); }
                for _ in 0..rng.range(1, 6) {
                    match rng.below(6) {
                        0 => { for _ in 0..rng.range(1, 7) { v.extend_from_slice(b"\\\\"); } }          // even run of backslashes
                        1 => { for _ in 0..rng.below(4) { v.extend_from_slice(b"\\\\"); } v.extend_from_slice(b"\\\""); }   // odd run + quote
                        2 => v.extend_from_slice(b"]"), 3 => v.extend_from_slice(b"}"), 4 => v.extend_from_slice(b"[{"),
                        _ => { for _ in 0..rng.below(70) { v.push(b'x'); } }
                    }
                }
                v.push(b'"');
            }
            // closing brackets in reverse order (read the openers back)
            let opens: Vec<u8> = { let mut o = Vec::new(); let mut ins = false; let mut esc = false; for &b in &v { if esc { esc = false; continue; } if b == b'\\' { esc = true; continue; } if b == b'"' { ins = !ins; continue; } if !ins { if b == b'[' || b == b'{' { o.push(b); } } } o };
            for b in opens.iter().rev() { v.push(if *b == b'[' { b']' } else { b'}' }); }
            if rng.chance(1, 2) { for _ in 0..rng.below(80) { v.push(b' '); } }
            v
        }
    }
}

pub fn record(args: &[String]) -> i32 {
    let seed = arg_u64(args, "--seed", 1);
    let n = arg_u64(args, "--n", 1000);
    let out = arg(args, "--out").expect("--out");
    let shards = arg_u64(args, "--shards", 1);
    let mut inflight = Inflight::new(arg(args, "--inflight"));
    let mut rng = Rng::new(seed ^ 0x736b);
    let mut outs: Vec<Out> = (0..shards).map(|i| Out::create(&format!("{out}.{i}.ndjson"))).collect();
    let (mut events, mut runs, mut closed, mut blocks) = (0u64, 0u64, 0u64, 0u64);
    for i in 0..n {
        let o = &mut outs[(i % shards) as usize];
        if i % 8 == 7 {
            // the escape mask on its own: backslash patterns with runs across the word start / end
            let mut bs = 0u64;
            for _ in 0..rng.range(1, 5) { let start = *rng.pick(&[0usize, 1, 2, 30, 31, 32, 33, 59, 60, 61, 62, 63]); let len = rng.range(1, 6); for k in start..(start + len).min(64) { bs |= 1 << k; } }
            if rng.chance(1, 4) { bs = rng.next(); }
            let prev = rng.below(2) as u64;
            let mut carry = prev;
            let r = catch(|| { let m = escaped_mask(&mut carry, bs); (m, carry) });
            match r { Ok((m, c)) => o.line(&json!({"ev":"esc","prev":prev,"bs":bits(bs),"mask":bits(m),"carry":c})), Err(p) => o.line(&json!({"ev":"esc","prev":prev,"bs":bits(bs),"mask":[],"carry":9,"panic":p})) }
            events += 1;
            continue;
        }
        let d = doc(&mut rng);
        inflight.set(i, &d);
        let starts: Vec<usize> = d.iter().enumerate().filter(|(_, b)| **b == b'[' || **b == b'{').map(|(k, _)| k).collect();
        if starts.is_empty() { continue; }
        for _ in 0..2 {
            let s0 = *rng.pick(&starts);
            let (left, right) = if d[s0] == b'[' { (b'[', b']') } else { (b'{', b'}') };
            o.line(&json!({"ev":"start","left":left,"right":right}));
            events += 1; runs += 1;
            let rest = &d[s0 + 1..];
            let mut st: State = (0, 0, 0, 0);
            let mut pos = 0;
            loop {
                let mut blk = [0u8; 64];
                let take = (rest.len() - pos).min(64);
                blk[..take].copy_from_slice(&rest[pos..pos + take]);
                let pre = st;
                let r = catch(|| { let mut s = st; let r = skip_block(&blk, &mut s, left, right); (s, r) });
                let Ok((s2, res)) = r else { o.line(&json!({"ev":"block","data":blk.to_vec(),"pre":st_j(&pre),"post":[9,9,9,9],"res":99})); events += 1; break };
                st = s2;
                o.line(&json!({"ev":"block","data":blk.to_vec(),"pre":st_j(&pre),"post":st_j(&st),"res":res.unwrap_or(0)}));
                events += 1; blocks += 1;
                if res.is_some() { closed += 1; break; }
                if take < 64 { break; }         // the zero-padded tail was the last block
                pos += 64;
                if pos >= rest.len() { // exact multiple of 64: the driver still runs one all-zero tail block
                    let blk = [0u8; 64]; let pre = st; let mut s = st; let res = skip_block(&blk, &mut s, left, right); st = s;
                    o.line(&json!({"ev":"block","data":blk.to_vec(),"pre":st_j(&pre),"post":st_j(&st),"res":res.unwrap_or(0)})); events += 1; blocks += 1; break; }
            }
        }
    }
    for o in outs.iter_mut() { o.flush(); }
    println!("{}", json!({"suite":"sk-record","events":events,"runs":runs,"closed":closed,"blocks":blocks}));
    0
}
