//! vh — conformance harness binding the TLA+ specification in /verif/tla to sonic-rs (/repo).
mod dom;
mod dump;
mod jt;
mod lc;
mod lg;
mod lz;
mod nm;
mod sr;
mod ty;
mod st;
mod sd;
mod sk;
mod wr;
mod util;

#[global_allocator]
static ALLOC: util::Counting = util::Counting;

fn main() {
    let args: Vec<String> = std::env::args().collect();
    util::install_quiet_panic_hook();
    let cmd = args.get(1).map(|s| s.as_str()).unwrap_or("");
    let code = match cmd {
        "jt-replay" => jt::replay(&args),
        "jt-record" => jt::record(&args),
        "lg-record" => lg::record(&args),
        "lg-record-beh" => lg::record_beh(&args),
        "st-record" => st::record(&args),
        "lz-record" => lz::record(&args),
        "lc-replay" => lc::replay(&args),
        "lc-probe" => lc::probe(&args),
        "nm-record" => nm::record(&args),
        "sr-record" => sr::record(&args),
        "ty-replay" => ty::replay(&args),
        "ty-record" => ty::record(&args),
        "ty-probe" => ty::probe(&args),
        "f32-sweep" => nm::f32_sweep(&args),
        "dom-replay" => dom::replay(&args),
        "big" => dom::big(&args),
        "sd-replay" => sd::replay(&args),
        "sk-record" => sk::record(&args),
        "wr-replay" => wr::replay(&args),
        "nest" => nest(&args),
        _ => { eprintln!("unknown command {cmd}"); 2 }
    };
    std::process::exit(code);
}

/// one deeply nested document on one entry point (run in its own process: a stack overflow kills it)
fn nest(args: &[String]) -> i32 {
    use util::*;
    let depth = arg_u64(args, "--depth", 100) as usize;
    let kind = arg(args, "--kind").unwrap_or("arr");
    let ep = arg(args, "--ep").unwrap_or("value");
    let closed = arg_u64(args, "--closed", 1) == 1;
    let small_stack = arg_u64(args, "--thread", 0) == 1;
    let mut doc = Vec::new();
    for i in 0..depth { match kind { "arr" => doc.push(b'['), "obj" => doc.extend_from_slice(b"{\"a\":"), _ => { if i % 2 == 0 { doc.push(b'[') } else { doc.extend_from_slice(b"{\"a\":") } } } }
    doc.push(b'1');
    if closed { for i in (0..depth).rev() { match kind { "arr" => doc.push(b']'), "obj" => doc.push(b'}'), _ => { if i % 2 == 0 { doc.push(b']') } else { doc.push(b'}') } } } } }
    let ep = ep.to_string();
    let run = move || -> String {
        let r = catch(|| match ep.as_str() {
            "value" => sonic_rs::from_slice::<sonic_rs::Value>(&doc).map(|v| { let s = sonic_rs::to_string(&v).map(|s| s.len()).unwrap_or(0); drop(v); s }).map_err(|e| e.to_string()),
            "lazy" => sonic_rs::from_slice::<sonic_rs::LazyValue>(&doc).map(|_| 0).map_err(|e| e.to_string()),
            "ownedlazy" => sonic_rs::from_slice::<sonic_rs::OwnedLazyValue>(&doc).map(|_| 0).map_err(|e| e.to_string()),
            "ignored" => sonic_rs::from_slice::<serde::de::IgnoredAny>(&doc).map(|_| 0).map_err(|e| e.to_string()),
            "sjvalue" => sonic_rs::from_slice::<serde_json::Value>(&doc).map(|v| { std::mem::forget(v); 0 }).map_err(|e| e.to_string()),
            "get" => sonic_rs::get(&doc[..], &["zz"]).map(|_| 0).map_err(|e| e.to_string()),
            "array_iter" => { let mut n = 0; for x in sonic_rs::to_array_iter(&doc[..]) { if x.is_err() { break; } n += 1; } Ok(n) }
            _ => Err("unknown ep".to_string()),
        });
        match r { Ok(Ok(n)) => format!("ok {n}"), Ok(Err(e)) => format!("err {}", &e[..e.len().min(60)]), Err(p) => format!("panic {p}") }
    };
    let out = if small_stack { std::thread::Builder::new().stack_size(2 << 20).spawn(run).unwrap().join().unwrap_or_else(|_| "panic thread".into()) } else { run() };
    println!("{out}");
    if out.starts_with("panic") { 3 } else { 0 }
}
