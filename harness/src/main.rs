//! vh — conformance harness binding the TLA+ specification in /verif/tla to sonic-rs (/repo).
mod dom;
mod dump;
mod jt;
mod lg;
mod lz;
mod st;
mod util;

#[global_allocator]
static ALLOC: util::Counting = util::Counting;

fn main() {
    let args: Vec<String> = std::env::args().collect();
    util::install_quiet_panic_hook();
    let cmd = args.get(1).map(|s| s.as_str()).unwrap_or("");
    let code = match cmd {
        "jt-replay" => jt::replay(&args),
        "jt-record" => jt::record(&args),
        "lg-record" => lg::record(&args),
        "st-record" => st::record(&args),
        "lz-record" => lz::record(&args),
        "dom-replay" => dom::replay(&args),
        _ => { eprintln!("unknown command {cmd}"); 2 }
    };
    std::process::exit(code);
}
