//! Conformance suite bound to JsonText.tla.
//!
//!  S->I  `jt-replay`: every behaviour emitted by TLC (class string + verdicts + next-step
//!        partition + self-loop classes + denoted value with spans) is concretised along the
//!        declared uniformity dimensions and executed on every entry point.
//!  I->S  `jt-record`: generated / mutated / expanded documents are executed and one event per
//!        document is logged for validation by Trace_JsonText.tla (TLC evaluates the byte-level
//!        machine on the recorded bytes).
use crate::dump::{bytes_j, dump_sj, dump_value, matches_spec};
use crate::util::*;
use serde::Deserialize;
use serde_json::{json, Value as J};
use std::collections::HashMap;

#[derive(Deserialize)]
pub struct Tables {
    pub classes: HashMap<String, Vec<u8>>,
    pub canon: HashMap<String, u8>,
    pub order: HashMap<String, usize>,
}
impl Tables {
    pub fn load(path: &str) -> Self { serde_json::from_slice(&std::fs::read(path).expect("tables")).expect("tables json") }
    pub fn canon_bytes(&self, t: &[String]) -> Vec<u8> { t.iter().map(|c| self.canon[c]).collect() }
}

#[derive(Deserialize, Clone)]
pub struct Rec {
    pub t: Vec<String>,
    pub acc: bool,
    pub lax: bool,
    pub gram: bool,
    pub part: Vec<Vec<String>>,
    pub loops: Vec<String>,
    pub v: J,
    pub badsur: bool,
    pub dsafe: bool,
    pub pacc: bool,
    pub plax: bool,
    pub pamb: bool,
    pub plossy: bool,
    pub praw: bool,
    pub pv: J,
}
pub fn load_recs(path: &str) -> Vec<Rec> {
    let data = std::fs::read_to_string(path).expect("behaviours");
    data.lines().filter(|l| !l.is_empty()).map(|l| serde_json::from_str(l).expect("behaviour line")).collect()
}
pub fn key(t: &[String]) -> String { t.join(" ") }

fn has_exp_classes(t: &[String]) -> bool { t.iter().any(|c| c == "e" || c == "E") }
pub struct Variant { pub bytes: Vec<u8>, pub kind: &'static str }

const DIGITS: [&str; 3] = ["0", "d17", "d89"];
pub const KS_QUICK: [usize; 14] = [1, 2, 7, 15, 16, 17, 30, 31, 32, 33, 62, 63, 64, 65];

/// Concretise one abstract behaviour.  Every variant inherits the behaviour's verdicts:
///  * byte-in-class: Class(b1) = Class(b2) => StepOp(s, b1) = StepOp(s, b2)            (ASSUME in MC_JsonText)
///  * class-in-block: classes of one partition block lead to the same successor state (bisimulation)
///  * loop insertion: StepOp(s, c) = s, hence c^k leaves the state unchanged
/// Digit substitutions / insertions are suppressed where the *strict* verdict depends on the
/// magnitude of a number (`dsafe` = no exponent with >= 3 digits; insertions only without exponent).
pub fn variants(rec: &Rec, idx: &HashMap<String, usize>, recs: &[Rec], tb: &Tables, rng: &mut Rng, thorough: bool) -> Vec<Variant> {
    let n = rec.t.len();
    let canon = tb.canon_bytes(&rec.t);
    let mut out = vec![Variant { bytes: canon.clone(), kind: "canon" }];
    let has_exp = rec.t.iter().any(|c| c == "e" || c == "E");
    // prefix records (every proper prefix of an explored text is itself explored)
    let prefix = |g: usize| -> Option<&Rec> { idx.get(&key(&rec.t[..g])).map(|&i| &recs[i]) };
    for i in 0..n {
        let c = &rec.t[i];
        let is_digit = DIGITS.contains(&c.as_str());
        // byte-in-class
        if !(is_digit && !rec.dsafe) {
            let members = &tb.classes[c];
            let picks: Vec<u8> = if thorough || members.len() <= 3 { members.clone() } else {
                vec![members[0], members[members.len() - 1], members[rng.below(members.len())]]
            };
            for b in picks {
                if b != canon[i] {
                    let mut v = canon.clone();
                    v[i] = b;
                    out.push(Variant { bytes: v, kind: "byte" });
                }
            }
        }
        // class-in-block
        if let Some(p) = prefix(i) {
            if let Some(block) = p.part.iter().find(|bl| bl.contains(c)) {
                let mut others: Vec<&String> = block.iter().filter(|x| *x != c).collect();
                if !thorough && others.len() > 3 {
                    let mut sel = Vec::new();
                    for _ in 0..3 { sel.push(others[rng.below(others.len())]); }
                    others = sel;
                }
                for c2 in others {
                    if DIGITS.contains(&c2.as_str()) && !rec.dsafe { continue; }
                    let members = &tb.classes[c2];
                    let mut v = canon.clone();
                    v[i] = members[rng.below(members.len())];
                    out.push(Variant { bytes: v, kind: "class" });
                }
            }
        }
    }
    // loop insertion: at every gap, for every self-loop class of the state reached there, runs whose
    // length puts what follows on / around the 16-, 32- and 64-byte block edges of the SIMD scanners
    let ks: &[usize] = &KS_QUICK;
    for g in 0..=n {
        let Some(p) = prefix(g).or(if g == n { Some(rec) } else { None }) else { continue };
        if p.loops.is_empty() { continue; }
        let classes: Vec<&String> = if thorough { p.loops.iter().collect() } else { vec![&p.loops[rng.below(p.loops.len())]] };
        for lc in classes {
            if DIGITS.contains(&lc.as_str()) && has_exp { continue; }
            let members = &tb.classes[lc];
            for &k in ks {
                let mut v = canon[..g].to_vec();
                for _ in 0..k { v.push(members[rng.below(members.len())]); }
                v.extend_from_slice(&canon[g..]);
                out.push(Variant { bytes: v, kind: "loop" });
            }
            if thorough {
                let k = rng.range(66, 200);
                let mut v = canon[..g].to_vec();
                for _ in 0..k { v.push(members[rng.below(members.len())]); }
                v.extend_from_slice(&canon[g..]);
                out.push(Variant { bytes: v, kind: "loop" });
            }
        }
    }
    out
}

// ------------------------------------------------------------------------------------------
// entry points

#[derive(Clone, Copy, PartialEq, Debug)]
pub enum Sem { Strict, Lax, PStrict, PLax, PLossy, PRaw, Kind(&'static str) }
impl Sem {
    pub fn name(&self) -> String {
        match self { Sem::Strict => "strict".into(), Sem::Lax => "lax".into(), Sem::PStrict => "pstrict".into(),
                     Sem::PLax => "plax".into(), Sem::PLossy => "plossy".into(), Sem::PRaw => "praw".into(), Sem::Kind(k) => format!("kind:{k}") }
    }
}
pub struct Ep { pub name: &'static str, pub sem: Sem, pub utf8_only: bool, pub f: fn(&[u8]) -> Result<Option<J>, sonic_rs::Error>, pub pre: &'static [u8], pub post: &'static [u8] }

#[derive(Deserialize)]
#[serde(deny_unknown_fields)]
#[allow(dead_code)]
struct WrapV { v: sonic_rs::Value }

fn wrap(pre: &[u8], b: &[u8], post: &[u8]) -> Vec<u8> { let mut v = pre.to_vec(); v.extend_from_slice(b); v.extend_from_slice(post); v }
pub static DUMP_ON: std::sync::atomic::AtomicBool = std::sync::atomic::AtomicBool::new(true);
/// other documents parsed on the same thread between obtaining a value and reading it (default mode, raw-number mode, several
/// values through one deserializer): a value owns its data, nothing it holds may change
fn interfere() {
    let _ = sonic_rs::from_str::<sonic_rs::Value>("[9.75,\"zz\",{\"q\":[1,2,3]}]");
    let mut de = sonic_rs::Deserializer::from_str("8.125").use_rawnumber();
    let _: Result<sonic_rs::Value, _> = de.deserialize();
    let mut de = sonic_rs::Deserializer::from_str("\"another\" 77 [5] -3e-7").use_rawnumber();
    for _ in 0..4 { let _: Result<sonic_rs::Value, _> = de.deserialize(); }
}
fn dv(v: &sonic_rs::Value) -> Option<J> { if !DUMP_ON.load(std::sync::atomic::Ordering::Relaxed) { return None; } interfere(); Some(dump_value(v).unwrap_or_else(|e| json!({"t":"inconsistent","why":e}))) }
fn s(b: &[u8]) -> &str { std::str::from_utf8(b).unwrap() }

pub fn entry_points() -> Vec<Ep> {
    use sonic_rs::{Deserializer, LazyValue, OwnedLazyValue, Value};
    use serde::de::IgnoredAny;
    vec![
        Ep { name: "value_from_slice", sem: Sem::Strict, utf8_only: false, pre: b"", post: b"", f: |b| sonic_rs::from_slice::<Value>(b).map(|v| dv(&v)) },
        Ep { name: "value_from_slice_unchecked", sem: Sem::Strict, utf8_only: true, pre: b"", post: b"", f: |b| unsafe { sonic_rs::from_slice_unchecked::<Value>(b) }.map(|v| dv(&v)) },
        Ep { name: "value_from_str", sem: Sem::Strict, utf8_only: true, pre: b"", post: b"", f: |b| sonic_rs::from_str::<Value>(s(b)).map(|v| dv(&v)) },
        Ep { name: "value_from_reader", sem: Sem::Strict, utf8_only: false, pre: b"", post: b"", f: |b| sonic_rs::from_reader::<_, Value>(std::io::Cursor::new(b)).map(|v| dv(&v)) },
        Ep { name: "value_in_tuple", sem: Sem::Strict, utf8_only: false, pre: b"[", post: b"]", f: |b| sonic_rs::from_slice::<(Value,)>(&wrap(b"[", b, b"]")).map(|v| dv(&v.0)) },
        Ep { name: "value_in_struct", sem: Sem::Strict, utf8_only: false, pre: b"{\"v\":", post: b"}", f: |b| sonic_rs::from_slice::<WrapV>(&wrap(b"{\"v\":", b, b"}")).map(|v| dv(&v.v)) },
        Ep { name: "sjvalue_from_slice", sem: Sem::Strict, utf8_only: false, pre: b"", post: b"", f: |b| sonic_rs::from_slice::<serde_json::Value>(b).map(|v| Some(json!({"sj": dump_sj(&v)}))) },
        Ep { name: "string_from_slice", sem: Sem::Kind("str"), utf8_only: false, pre: b"", post: b"", f: |b| sonic_rs::from_slice::<String>(b).map(|x| Some(json!({"t":"str","s":crate::dump::cps(&x)}))) },
        Ep { name: "f64_from_slice", sem: Sem::Kind("num"), utf8_only: false, pre: b"", post: b"", f: |b| sonic_rs::from_slice::<f64>(b).map(|_| None) },
        Ep { name: "bool_from_slice", sem: Sem::Kind("bool"), utf8_only: false, pre: b"", post: b"", f: |b| sonic_rs::from_slice::<bool>(b).map(|x| Some(json!({"t":"bool","b":x}))) },
        Ep { name: "unit_from_slice", sem: Sem::Kind("null"), utf8_only: false, pre: b"", post: b"", f: |b| sonic_rs::from_slice::<()>(b).map(|_| Some(json!({"t":"null"}))) },
        Ep { name: "lazy_from_slice", sem: Sem::Lax, utf8_only: false, pre: b"", post: b"", f: |b| sonic_rs::from_slice::<LazyValue>(b).map(|_| None) },
        Ep { name: "lazy_from_str", sem: Sem::Lax, utf8_only: true, pre: b"", post: b"", f: |b| sonic_rs::from_str::<LazyValue>(s(b)).map(|_| None) },
        Ep { name: "ownedlazy_from_slice", sem: Sem::Lax, utf8_only: false, pre: b"", post: b"", f: |b| sonic_rs::from_slice::<OwnedLazyValue>(b).map(|_| None) },
        Ep { name: "ignored_from_slice", sem: Sem::Lax, utf8_only: false, pre: b"", post: b"", f: |b| sonic_rs::from_slice::<IgnoredAny>(b).map(|_| None) },
        Ep { name: "ignored_in_tuple", sem: Sem::Lax, utf8_only: false, pre: b"[", post: b"]", f: |b| sonic_rs::from_slice::<(IgnoredAny,)>(&wrap(b"[", b, b"]")).map(|_| None) },
        Ep { name: "lazy_in_tuple", sem: Sem::Lax, utf8_only: false, pre: b"[", post: b"]", f: |b| sonic_rs::from_slice::<(LazyValue,)>(&wrap(b"[", b, b"]")).map(|_| None) },
        // prefix semantics: Deserializer::deserialize stops after the first value
        Ep { name: "de_bytes_value", sem: Sem::PStrict, utf8_only: false, pre: b"", post: b"", f: |b| { let x = bytes::Bytes::copy_from_slice(b); Deserializer::from_json(&x).deserialize::<Value>().map(|v| dv(&v)) } },
        Ep { name: "de_faststr_value", sem: Sem::PStrict, utf8_only: true, pre: b"", post: b"", f: |b| { let x = faststr::FastStr::new(s(b)); Deserializer::from_json(&x).deserialize::<Value>().map(|v| dv(&v)) } },
        Ep { name: "de_string_value", sem: Sem::PStrict, utf8_only: true, pre: b"", post: b"", f: |b| { let x = s(b).to_string(); Deserializer::from_json(&x).deserialize::<Value>().map(|v| dv(&v)) } },
        // the same deserializer asked again after its first answer (whatever that was): further answers are not predicted, but no call may panic
        Ep { name: "de_slice_value_again", sem: Sem::PStrict, utf8_only: false, pre: b"", post: b"", f: |b| { let mut de = Deserializer::from_slice(b); let r = de.deserialize::<Value>().map(|v| dv(&v));
            for _ in 0..3 { let _ = de.deserialize::<Value>().map(|v| drop(v)); let _ = de.deserialize::<LazyValue>().map(|_| ()); } r } },
        Ep { name: "de_slice_lazy", sem: Sem::PLax, utf8_only: false, pre: b"", post: b"", f: |b| Deserializer::from_slice(b).deserialize::<LazyValue>().map(|_| None) },
        Ep { name: "de_slice_value_rawnum", sem: Sem::PRaw, utf8_only: false, pre: b"", post: b"", f: |b| Deserializer::from_slice(b).use_rawnumber().deserialize::<Value>().map(|v| dv(&v)) },
        Ep { name: "de_str_value_lossy", sem: Sem::PLossy, utf8_only: true, pre: b"", post: b"", f: |b| Deserializer::from_str(s(b)).utf8_lossy().deserialize::<Value>().map(|v| dv(&v)) },
        Ep { name: "de_str_second_value_lossy", sem: Sem::PLossy, utf8_only: true, pre: b"0 ", post: b"", f: |b| {
            let x = wrap(b"0 ", b, b"");
            let mut de = Deserializer::from_str(s(&x)).utf8_lossy();
            let _ = de.deserialize::<u8>()?;
            de.deserialize::<Value>().map(|v| dv(&v)) } },
        Ep { name: "de_slice_second_value_rawnum", sem: Sem::PRaw, utf8_only: false, pre: b"0 ", post: b"", f: |b| {
            let x = wrap(b"0 ", b, b"");
            let mut de = Deserializer::from_slice(&x).use_rawnumber();
            let _ = de.deserialize::<u8>()?;
            de.deserialize::<Value>().map(|v| dv(&v)) } },
        // values must own their data: the input buffer is overwritten before the value is read
        Ep { name: "value_from_slice_scrubbed", sem: Sem::Strict, utf8_only: false, pre: b"", post: b"", f: |b| { let mut x = b.to_vec(); let r = sonic_rs::from_slice::<Value>(&x); let r = r.map(|v| { x.iter_mut().for_each(|c| *c = b'#'); dv(&v) }); drop(x); r } },
        Ep { name: "value_in_struct_scrubbed", sem: Sem::Strict, utf8_only: false, pre: b"{\"v\":", post: b"}", f: |b| { let mut x = wrap(b"{\"v\":", b, b"}"); let r = sonic_rs::from_slice::<WrapV>(&x); let r = r.map(|v| { x.iter_mut().for_each(|c| *c = b'#'); dv(&v.v) }); drop(x); r } },
        Ep { name: "second_value_rawnum_scrubbed", sem: Sem::PRaw, utf8_only: false, pre: b"0 ", post: b"", f: |b| {
            let mut x = wrap(b"0 ", b, b"");
            let r = { let mut de = Deserializer::from_slice(&x).use_rawnumber(); let _ = de.deserialize::<u8>()?; de.deserialize::<Value>() };
            let r = r.map(|v| { x.iter_mut().for_each(|c| *c = b'#'); dv(&v) }); drop(x); r } },
        Ep { name: "de_str_second_value", sem: Sem::PStrict, utf8_only: true, pre: b"0 ", post: b"", f: |b| {
            // second document of a stream: the copying (non-padded) DOM parser
            let x = wrap(b"0 ", b, b"");
            let mut de = Deserializer::from_str(s(&x));
            let _ = de.deserialize::<u8>()?;
            de.deserialize::<Value>().map(|v| dv(&v)) } },
    ]
}

pub fn expected(rec: &Rec, sem: Sem) -> bool {
    match sem {
        Sem::Strict => rec.acc,
        Sem::Lax => rec.lax,
        Sem::PStrict => rec.pacc,
        Sem::PLax => rec.plax,
        Sem::PLossy => rec.plossy,
        Sem::PRaw => rec.praw,
        Sem::Kind(k) => rec.acc && rec.v["t"] == k,
    }
}

pub struct Mismatch { pub j: J }

pub fn err_j(e: &sonic_rs::Error) -> J {
    let disp = catch(|| format!("{} | {:?}", e, e));
    json!({"off": e.offset(), "line": e.line(), "col": e.column(),
           "cat": format!("{:?}", e.classify()), "disp_ok": disp.is_ok(),
           "nf": e.is_not_found(), "eof": e.is_eof()})
}

// ------------------------------------------------------------------------------------------
// S->I

pub fn replay(args: &[String]) -> i32 {
    let tb = Tables::load(arg(args, "--tables").expect("--tables"));
    let recs = load_recs(arg(args, "--beh").expect("--beh"));
    let seed = arg_u64(args, "--seed", 1);
    let thorough = arg(args, "--tier") == Some("thorough");
    let outdir = arg(args, "--out").expect("--out").to_string();
    let prop = arg(args, "--prop").unwrap_or("C02").to_string();
    let skip_to = arg_u64(args, "--skip-to", 0);
    let shard = arg_u64(args, "--shard", 0);
    let nshards = arg_u64(args, "--nshards", 1);
    let mut inflight = Inflight::new(arg(args, "--inflight"));
    let idx: HashMap<String, usize> = recs.iter().enumerate().map(|(i, r)| (key(&r.t), i)).collect();
    let eps = entry_points();
    let maxlen = recs.iter().map(|r| r.t.len()).max().unwrap_or(0);
    // accepted texts indexed by their proper prefixes: used to complete rejected leaves
    let mut ext: HashMap<String, Vec<usize>> = HashMap::new();
    for (i, r) in recs.iter().enumerate() {
        if !r.lax { continue; }
        for g in 0..r.t.len() {
            let e = ext.entry(key(&r.t[..g])).or_default();
            if e.len() < 3 { e.push(i); }
        }
    }
    let mut cases = 0u64;
    let mut evals = 0u64;
    let mut nontrivial = 0u64;
    let mut per_ep: HashMap<&'static str, (u64, u64)> = HashMap::new(); // (ok, err)
    let mut per_kind: HashMap<&'static str, u64> = HashMap::new();
    let mut mism: Vec<J> = Vec::new();
    let mut mism_count: HashMap<String, u32> = HashMap::new();
    let leakcheck = prop == "C01";
    let mut value_checks = 0u64;
    let mut leak_checks = 0u64;
    let mut samples: Vec<J> = Vec::new();
    let mut panics = 0u64;
    for (ri, rec) in recs.iter().enumerate() {
        if (ri as u64) % nshards != shard || (ri as u64) < skip_to { continue; }
        let mut rng = Rng::new(seed.wrapping_mul(0x9E3779B97F4A7C15) ^ (ri as u64));
        let mut probe_rec: Option<&Rec> = None;
        let mut vars = variants(rec, &idx, &recs, &tb, &mut rng, thorough);
        // A dead leaf p.c (both machines rejected at c): every extension is rejected too.  Complete it
        // with the tails of accepted siblings p.c'.w  ->  p.c.w and p.c.c'.w : an implementation that
        // ignores c, or treats it like c', would accept these.
        if rec.part.is_empty() && !rec.t.is_empty() {
            let n = rec.t.len();
            if let Some(sibs) = ext.get(&key(&rec.t[..n - 1])) {
                let head = tb.canon_bytes(&rec.t);
                let mut tails: Vec<Vec<u8>> = Vec::new();
                for &si in sibs {
                    let sib = &recs[si];
                    tails.push(tb.canon_bytes(&sib.t[n..]));
                    tails.push(tb.canon_bytes(&sib.t[n - 1..]));
                }
                for tail in &tails {
                    let mut a = head.clone();
                    a.extend_from_slice(tail);
                    vars.push(Variant { bytes: a, kind: "leafext" });
                }
                // block-edge runs inside the rejected prefix, followed by a completing tail
                let nloop = vars.iter().filter(|v| v.kind == "loop").count();
                let mut extra = Vec::new();
                for (vi, v) in vars.iter().enumerate() {
                    if v.kind != "loop" { continue; }
                    let k = v.bytes.len() - n;
                    if !matches!(k, 30..=33 | 62..=65) && !(thorough && nloop < 400) { continue; }
                    let _ = vi;
                    for tail in tails.iter().take(if thorough { 6 } else { 2 }) {
                        let mut a = v.bytes.clone();
                        a.extend_from_slice(tail);
                        extra.push(Variant { bytes: a, kind: "leafext-loop" });
                    }
                }
                vars.extend(extra);
            }
        }
        // Laxness probes from a *live* state p: every class c2 of the rejecting block, followed by what would
        // have been an accepted continuation had c2 been an accepting class c' (p.c2.w and p.c2.c'.w).  The
        // quotient collapses all rejecting classes into one dead leaf; the implementation may treat each differently.
        let mut probes: Vec<Variant> = Vec::new();
        if !rec.part.is_empty() && rec.t.len() < maxlen {
            let n = rec.t.len();
            let child = |c: &String| -> Option<&Rec> { let mut t = rec.t.clone(); t.push(c.clone()); idx.get(&key(&t)).map(|&i| &recs[i]) };
            let rep_of = |bl: &Vec<String>| -> String { bl.iter().min_by_key(|c| tb.order[*c]).unwrap().clone() };
            let mut reject: Option<&Vec<String>> = None;
            let mut tails: Vec<Vec<u8>> = Vec::new();
            for bl in &rec.part {
                let rep = rep_of(bl);
                match child(&rep) {
                    Some(ch) if ch.part.is_empty() && !ch.lax && !ch.acc => reject = Some(bl),
                    Some(ch) => {
                        if tails.len() < 8 {
                            if let Some(sibs) = ext.get(&key(&ch.t)) {
                                if let Some(&si) = sibs.first() {
                                    tails.push(tb.canon_bytes(&recs[si].t[n + 1..]));     // w
                                    tails.push(tb.canon_bytes(&recs[si].t[n..]));         // c'.w
                                }
                            } else if ch.lax { tails.push(vec![]); tails.push(vec![tb.canon[&rep]]); }
                        }
                    }
                    None => {}
                }
            }
            if let Some(rb) = reject {
                let head = tb.canon_bytes(&rec.t);
                let dead = child(&rep_of(rb)).unwrap();
                probe_rec = Some(dead);
                for c2 in rb {
                    let members = &tb.classes[c2];
                    for tail in &tails {
                        let mut a = head.clone();
                        a.push(members[rng.below(members.len())]);
                        a.extend_from_slice(tail);
                        // one in eight probes additionally gets a block-edge run somewhere in the prefix
                        if rng.chance(1, if thorough { 2 } else { 8 }) {
                            let g = rng.below(n + 1);
                            if let Some(pg) = idx.get(&key(&rec.t[..g])).map(|&i| &recs[i]) {
                                if !pg.loops.is_empty() {
                                    let lc = &pg.loops[rng.below(pg.loops.len())];
                                    if !(DIGITS.contains(&lc.as_str()) && has_exp_classes(&rec.t)) {
                                        let lm = &tb.classes[lc];
                                        let k = *rng.pick(&[30usize, 31, 32, 33, 62, 63, 64, 65]);
                                        let mut b = a[..g].to_vec();
                                        for _ in 0..k { b.push(lm[rng.below(lm.len())]); }
                                        b.extend_from_slice(&a[g..]);
                                        probes.push(Variant { bytes: b, kind: "probe-loop" });
                                    }
                                }
                            }
                        }
                        probes.push(Variant { bytes: a, kind: "probe" });
                    }
                }
            }
        }
        if rec.t.len() >= 3 && rec.gram { nontrivial += 1; }
        let nvars = vars.len();
        vars.extend(probes);
        for (vi, var) in vars.iter().enumerate() {
            let rec: &Rec = if vi >= nvars { probe_rec.unwrap() } else { rec };
            if vi >= nvars && rec.pv["t"] == "num" { /* prefix outcome open for root numbers */ }
            cases += 1;
            *per_kind.entry(var.kind).or_default() += 1;
            DUMP_ON.store(var.kind == "canon", std::sync::atomic::Ordering::Relaxed);
            inflight.set(ri as u64, &var.bytes);
            let utf8 = std::str::from_utf8(&var.bytes).is_ok();
            for ep in &eps {
                if ep.utf8_only && !utf8 { continue; }
                let want = expected(rec, ep.sem);
                // a root-level number followed by a non-delimiter: outcome of one-value entry points is open
                if (rec.pamb || (vi >= nvars && rec.pv["t"] == "num")) && matches!(ep.sem, Sem::PStrict | Sem::PLax | Sem::PLossy | Sem::PRaw) { continue; }
                let got = catch(|| (ep.f)(&var.bytes));
                evals += 1;
                let (ok, detail) = match &got {
                    Ok(Ok(d)) => (true, d.clone().unwrap_or(J::Null)),
                    Ok(Err(e)) => (false, err_j(e)),
                    Err(p) => { panics += 1; (false, json!({"panic": p})) }
                };
                let e = per_ep.entry(ep.name).or_default();
                if ok { e.0 += 1 } else { e.1 += 1 }
                let mut class = if got.is_err() { "panic" } else if ok != want { "verdict" } else { "" };
                let mut why = if got.is_err() { format!("panic: {}", detail["panic"]) } else { format!("verdict: spec {} impl {}", want, ok) };
                if class.is_empty() && detail.get("t").and_then(|t| t.as_str()) == Some("inconsistent") { class = "inconsistent"; why = format!("inconsistent value: {}", detail["why"]); }
                // value check on the canonical concretisation (spans are abstract positions there)
                if class.is_empty() && ok && var.kind == "canon" {
                    let specv = match ep.sem { Sem::PStrict | Sem::PLax | Sem::PLossy | Sem::PRaw => &rec.pv, _ => &rec.v };
                    if !detail.is_null() && detail.get("sj").is_none() {
                        value_checks += 1;
                        if let Err(w) = matches_spec(specv, &detail, ep.sem == Sem::PRaw) { class = "value"; why = format!("value: {w}"); }
                    }
                }
                if !class.is_empty() && { let c = mism_count.entry(format!("{}|{}", ep.name, &why[..why.len().min(24)])).or_insert(0u32); *c += 1; *c <= 8 } {
                    mism.push(json!({"suite":"jt-replay","class":class,"ep":ep.name,"sem":ep.sem.name(),"kind":var.kind,
                                     "text":rec.t,"bytes_hex":hex(&var.bytes),"bytes_lossy":lossy(&var.bytes),
                                     "spec_accepts":want,"impl_ok":ok,"detail":detail,"why":why,"rec":ri}));
                }
            }
            // leak clause of C01: live heap blocks must return to the level before the case
            if leakcheck {
                let run_all = |b: &[u8]| { for ep in &eps { if ep.utf8_only && !utf8 { continue; } let _ = catch(|| (ep.f)(b)); } };
                run_all(&var.bytes);            // warm-up (thread-local buffers, lazy statics)
                let before = live();
                run_all(&var.bytes);
                let after = live();
                leak_checks += 1;
                if after.1 > before.1 || after.0 > before.0 {
                    mism.push(json!({"suite":"jt-replay","class":"leak","ep":"*","kind":var.kind,"text":rec.t,
                                     "bytes_hex":hex(&var.bytes),"bytes_lossy":lossy(&var.bytes),
                                     "why":format!("live heap grew by {} blocks / {} bytes across one repetition of the case", after.1-before.1, after.0-before.0)}));
                }
            }
        }
        if samples.len() < 5 && ri % 9973 == 17 {
            samples.push(json!({"text": rec.t, "acc": rec.acc, "lax": rec.lax, "variants": vars.len(),
                                "example": lossy(&vars[vars.len() - 1].bytes)}));
        }
    }
    let summary = json!({"suite":"jt-replay","prop":prop,"behaviours":recs.len(),"cases":cases,"evaluations":evals,
        "nontrivial":nontrivial,"panics":panics,"value_checks":value_checks,"leak_checks":leak_checks,
        "per_ep": per_ep.iter().map(|(k, v)| (k.to_string(), json!({"ok":v.0,"err":v.1}))).collect::<serde_json::Map<_,_>>(),
        "per_kind": per_kind.iter().map(|(k, v)| (k.to_string(), json!(v))).collect::<serde_json::Map<_,_>>(),
        "mismatches": mism, "samples": samples});
    std::fs::write(format!("{outdir}/summary.{shard}.json"), serde_json::to_vec(&summary).unwrap()).unwrap();
    0
}

// ------------------------------------------------------------------------------------------
// generators for I->S

pub struct Gen<'a> { pub rng: &'a mut Rng }
impl<'a> Gen<'a> {
    fn ws(&mut self, out: &mut Vec<u8>) {
        if self.rng.chance(1, 4) {
            for _ in 0..self.rng.range(1, 3) { out.push(*self.rng.pick(b" \t\n\r")); }
        }
    }
    pub fn string(&mut self, out: &mut Vec<u8>) {
        out.push(b'"');
        let n = if self.rng.chance(1, 10) { self.rng.range(20, 90) } else { self.rng.range(0, 8) };
        for _ in 0..n {
            match self.rng.below(20) {
                0 => { out.push(b'\\'); out.push(*self.rng.pick(b"\"\\/bfnrt")); }
                1 => { if self.rng.chance(1, 3) { out.extend_from_slice(self.rng.pick(&["\\u000b", "\\u0000", "\\u001f", "\\u007f", "\\u0008", "\\u000c", "\\u2028", "\\u0022", "\\u005c"]).as_bytes()); }
                       else { out.extend_from_slice(format!("\\u{:04x}", self.rng.below(0xd800)).as_bytes()); } }
                2 => { let c = 0x10000 + self.rng.below(0x100000) as u32; let c = c - 0x10000;
                       out.extend_from_slice(format!("\\u{:04X}\\u{:04x}", 0xd800 + (c >> 10), 0xdc00 + (c & 0x3ff)).as_bytes()); }
                3 => { let mut b = [0u8; 4]; let ch = char::from_u32(*self.rng.pick(&[0xe9u32, 0x4e2d, 0x1f600, 0x7ff, 0x800, 0xffff, 0x10ffff, 0x80])).unwrap();
                       out.extend_from_slice(ch.encode_utf8(&mut b).as_bytes()); }
                4 => out.extend_from_slice(b"{[]},:"),
                _ => out.push(*self.rng.pick(b"abcxyz 0189_-+.eEtrufnl")),
            }
        }
        out.push(b'"');
    }
    pub fn number(&mut self, out: &mut Vec<u8>) {
        if self.rng.chance(1, 3) { out.push(b'-'); }
        if self.rng.chance(1, 12) {
            // literals around the overflow threshold 2^1024 - 2^970 and other hard spots
            const HARD: &[&str] = &["1e308", "1.7976931348623157e308", "1.7976931348623158e308", "1.7976931348623159e308", "18e307",
                "17976931348623157e292", "17976931348623159e292", "2e308", "9999999999999999999e290", "1e309", "0.00001e314", "1e-400",
                "179769313486231580793728971405303415079934132710037826936173778980444968292764750946649017977587207096330286416692887910946555547851940402630657488671505820681908902000708383676273854845817711531764475730270069855571366959622842914819860834936475292719074168444365510704342711559699508093042880177904174497792",
                "179769313486231580793728971405303415079934132710037826936173778980444968292764750946649017977587207096330286416692887910946555547851940402630657488671505820681908902000708383676273854845817711531764475730270069855571366959622842914819860834936475292719074168444365510704342711559699508093042880177904174497791",
                "0.000000000000000000000000000000000001e344", "123456789012345678901234567890e279", "4.9e-324", "2.4703282292062327e-324", "2.4703282292062328e-324",
                "9007199254740993", "9007199254740992.5", "18446744073709551616", "-9223372036854775809", "1e22", "1e23", "8.41e21"];
            let h = *self.rng.pick(HARD);
            let h = h.strip_prefix('-').unwrap_or(h);
            out.extend_from_slice(h.as_bytes());
            return;
        }
        match self.rng.below(6) {
            0 => out.push(b'0'),
            1 => out.extend_from_slice(b"18446744073709551615"),
            2 => out.extend_from_slice(b"9223372036854775808"),
            _ => { out.push(*self.rng.pick(b"123456789")); let lim = if self.rng.chance(1, 8) { 25 } else { 5 }; for _ in 0..self.rng.below(lim) { out.push(*self.rng.pick(b"0123456789")); } }
        }
        // fractions: short ones, and sometimes leading zeros followed by more digits than a u64 holds (the slow decimal path)
        if self.rng.chance(1, 3) { out.push(b'.');
            if self.rng.chance(1, 6) { for _ in 0..self.rng.below(6) { out.push(b'0'); } for _ in 0..self.rng.range(17, 40) { out.push(*self.rng.pick(b"0123456789")); } }
            else { for _ in 0..self.rng.range(1, 6) { out.push(*self.rng.pick(b"0123456789")); } } }
        if self.rng.chance(1, 4) { out.push(*self.rng.pick(b"eE")); if self.rng.chance(1, 2) { out.push(*self.rng.pick(b"+-")); }
            for _ in 0..self.rng.range(1, 3) { out.push(*self.rng.pick(b"0123456789")); } }
    }
    pub fn value(&mut self, out: &mut Vec<u8>, depth: usize) {
        if depth < 3 && self.rng.chance(1, 40) {
            // a large object with repeated member names (order and duplicates matter; sort stability under sort_keys)
            out.push(b'{');
            let n = self.rng.range(18, 34);
            for i in 0..n { if i > 0 { out.push(b','); } out.extend_from_slice(format!("\"m{}\":{}", self.rng.below(9), i).as_bytes()); }
            out.push(b'}');
            return;
        }
        let pick = if depth >= 4 { self.rng.below(5) } else { self.rng.below(8) };
        match pick {
            0 => out.extend_from_slice(b"null"),
            1 => out.extend_from_slice(if self.rng.chance(1, 2) { b"true" } else { b"false" }),
            2 | 3 => self.number(out),
            4 => self.string(out),
            5 | 6 => {
                out.push(b'[');
                self.ws(out);
                let n = self.rng.below(5);
                for i in 0..n { if i > 0 { out.push(b','); self.ws(out); } self.value(out, depth + 1); self.ws(out); }
                out.push(b']');
            }
            _ => {
                out.push(b'{');
                self.ws(out);
                let n = self.rng.below(5);
                for i in 0..n {
                    if i > 0 { out.push(b','); self.ws(out); }
                    if self.rng.chance(1, 3) { self.string(out) } else { out.extend_from_slice(format!("\"k{}\"", self.rng.below(4)).as_bytes()) }
                    self.ws(out); out.push(b':'); self.ws(out);
                    self.value(out, depth + 1); self.ws(out);
                }
                out.push(b'}');
            }
        }
    }
    pub fn doc(&mut self) -> Vec<u8> {
        let mut out = Vec::new();
        self.ws(&mut out);
        self.value(&mut out, 0);
        self.ws(&mut out);
        out
    }
    pub fn mutate(&mut self, doc: &[u8]) -> Vec<u8> {
        let mut v = doc.to_vec();
        let structural = b"{}[],:\"\\-+.0eEtfn \n\x00\x1f\x7f\x80\xc3\xe2\xf0\xff";
        match self.rng.below(10) {
            8 | 9 => {
                // corrupt a number: replace one digit of the document by a malformed-number snippet
                let digits: Vec<usize> = v.iter().enumerate().filter(|(_, b)| b.is_ascii_digit()).map(|(i, _)| i).collect();
                if !digits.is_empty() {
                    let i = *self.rng.pick(&digits);
                    let long = |k: usize| -> Vec<u8> { let mut x = vec![b'7'; k]; x.extend_from_slice(b".5.25"); x };
                    let snippets: Vec<Vec<u8>> = vec![b"-01".to_vec(), b"01".to_vec(), b"1.".to_vec(), b"1.e2".to_vec(), b".5".to_vec(), b"1e".to_vec(), b"1e+".to_vec(),
                        b"-".to_vec(), b"--1".to_vec(), b"1.5.25".to_vec(), b"+1".to_vec(), b"0x10".to_vec(), b"1_000".to_vec(), b"-00.5".to_vec(), b"1E-".to_vec(), b"00".to_vec(),
                        long(31), long(32), long(33), long(63), long(64), long(65)];
                    let sn = self.rng.pick(&snippets).clone();
                    v.splice(i..i + 1, sn);
                }
            }
            0 => { let n = self.rng.below(v.len() + 1); v.truncate(n); }
            1 if !v.is_empty() => { let i = self.rng.below(v.len()); v.remove(i); }
            2 => { let i = self.rng.below(v.len() + 1); v.insert(i, *self.rng.pick(structural)); }
            3 if !v.is_empty() => { let i = self.rng.below(v.len()); v[i] = *self.rng.pick(structural); }
            4 if !v.is_empty() => { let i = self.rng.below(v.len()); v[i] = self.rng.below(256) as u8; }
            5 => { let i = self.rng.below(v.len() + 1); let esc: &[&[u8]] = &[b"\\u12", b"\\ud800", b"\\udc00", b"\\x", b"\\uD834\\u0041", b"\\u00zz", b"\\",
                       // a high surrogate followed by something that only half looks like the start of a low one
                       b"\\ud83d\\tde00", b"\\ud83dXude00", b"\\ud83d\\Ude00", b"\\ud83du\\de00", b"\\ud83d\\\\ude00", b"\\ud83d\\ude00"];
                   let quotes: Vec<usize> = v.iter().enumerate().filter(|(_, b)| **b == b'"').map(|(k, _)| k + 1).collect();
                   let i = if !quotes.is_empty() && self.rng.chance(2, 3) { *self.rng.pick(&quotes) } else { i };
                   let e = *self.rng.pick(esc); for (k, b) in e.iter().enumerate() { v.insert(i + k, *b); } }
            6 if v.len() > 1 => { let i = self.rng.below(v.len() - 1); v.swap(i, i + 1); }
            _ => { let i = self.rng.below(v.len() + 1); let k = self.rng.range(1, 70); let c = *self.rng.pick(b" a0\\\""); for _ in 0..k { v.insert(i, c); } }
        }
        v
    }
}

/// run every entry point on `bytes` and produce one trace event
pub fn doc_event(eps: &[Ep], bytes: &[u8], origin: &str) -> (J, u64) {
    let utf8 = std::str::from_utf8(bytes).is_ok();
    let mut res = serde_json::Map::new();
    let mut panics = 0;
    for ep in eps {
        if ep.utf8_only && !utf8 { continue; }
        let got = catch(|| (ep.f)(bytes));
        let r = match got {
            Ok(Ok(d)) => json!({"sem": ep.sem.name(), "ok": true, "v": d.unwrap_or(json!({"t":"nodump"})), "panic": false}),
            Ok(Err(e)) => json!({"sem": ep.sem.name(), "ok": false, "err": err_j(&e), "panic": false,
                                 "pre": bytes_j(ep.pre), "post": bytes_j(ep.post)}),
            Err(p) => { panics += 1; json!({"sem": ep.sem.name(), "ok": false, "panic": true, "msg": p}) }
        };
        res.insert(ep.name.to_string(), r);
    }
    (json!({"ev":"doc","origin":origin,"b":bytes_j(bytes),"n":bytes.len(),"res":res}), panics)
}

pub fn record(args: &[String]) -> i32 {
    let seed = arg_u64(args, "--seed", 1);
    let n = arg_u64(args, "--n", 1000);
    let out = arg(args, "--out").expect("--out");
    let shards = arg_u64(args, "--shards", 1);
    let mut inflight = Inflight::new(arg(args, "--inflight"));
    let mut rng = Rng::new(seed ^ 0x6a74);
    let eps = entry_points();
    DUMP_ON.store(true, std::sync::atomic::Ordering::Relaxed);
    let mut outs: Vec<Out> = (0..shards).map(|i| Out::create(&format!("{out}.{i}.ndjson"))).collect();
    // optional seeds from emitted behaviours (expanded with long runs / substitutions)
    let (tb, recs) = match (arg(args, "--tables"), arg(args, "--beh")) {
        (Some(t), Some(b)) => (Some(Tables::load(t)), load_recs(b)),
        _ => (None, vec![]),
    };
    let idx: HashMap<String, usize> = recs.iter().enumerate().map(|(i, r)| (key(&r.t), i)).collect();
    let mut panics = 0u64;
    let mut count = 0u64;
    let mut accepted = 0u64;
    let mut rejected = 0u64;
    for i in 0..n {
        let (bytes, origin) = {
            let mut g = Gen { rng: &mut rng };
            match i % 4 {
                0 => (g.doc(), "gen"),
                1 | 2 => { let d = g.doc(); let mut m = g.mutate(&d); if g.rng.chance(1, 4) { m = g.mutate(&m); } (m, "mut") }
                _ => {
                    if let Some(tb) = &tb {
                        let r = &recs[g.rng.below(recs.len())];
                        let vs = variants(r, &idx, &recs, tb, g.rng, false);
                        let v = &vs[g.rng.below(vs.len())];
                        (v.bytes.clone(), "beh")
                    } else { (g.doc(), "gen") }
                }
            }
        };
        inflight.set(i, &bytes);
        let (ev, p) = doc_event(&eps, &bytes, origin);
        if ev["res"]["value_from_slice"]["ok"] == true { accepted += 1; } else { rejected += 1; }
        panics += p;
        outs[(i % shards) as usize].line(&ev);
        count += 1;
    }
    for o in outs.iter_mut() { o.flush(); }
    println!("{}", json!({"suite":"jt-record","events":count,"accepted_docs":accepted,"rejected_docs":rejected,"panics":panics}));
    0
}
