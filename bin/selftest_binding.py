#!/usr/bin/env python3
"""selftest_binding.py: demonstrates that the trace specifications bind to what the harness records.
For every trace specification: record a small trace from the real code, validate it (must be accepted),
then corrupt ONE observed field of ONE event and validate again (the corrupted line must be rejected).
Not a property check: a development-time self-test of the machinery (DESIGN.md section 7).  Exit 0 when every
specification accepts the honest trace and rejects the corrupted one."""
import sys, os, json, copy
sys.path.insert(0, os.path.dirname(os.path.abspath(__file__)))
import vlib, props
from vlib import build_harness, run_vh, fresh, tlc_trace


def flip_first_ok(ev):
    """flip the first boolean field called ok / same / ab (depth-first, key order) below the event"""
    def walk(x):
        if isinstance(x, dict):
            for k in sorted(x):
                if k in ("ok", "same", "ab", "sonic_ok", "some") and isinstance(x[k], bool):
                    x[k] = not x[k]
                    return True
                if walk(x[k]):
                    return True
        elif isinstance(x, list):
            for y in x:
                if walk(y):
                    return True
        return False
    e = copy.deepcopy(ev)
    if e.get("ev") == "block":
        e["post"][3] = e["post"][3] + 1     # one right bracket too many in the carried state
        return e
    if e.get("ev") == "rt" and isinstance(e.get("s2"), list):
        e["s2"] = e["s2"] + [32]          # the second serialisation differs by one trailing blank
        return e
    return e if walk(e) else None


SUITES = [
    ("jt-record", ["--seed", 5, "--n", 60, "--beh", None, "--tables", None], "Trace_JsonText", {"Checks": '{"verdict", "panic"}'}),
    ("lg-record", ["--seed", 5, "--n", 60], "Trace_LazyGet", {"Checks": '{"c10", "c11", "c12", "c14", "latch", "stream", "panic"}'}),
    ("st-record", ["--seed", 5, "--n", 60, "--mode", "sweep"], "Trace_Strings", {}),
    ("nm-record", ["--seed", 5, "--n", 60, "--mode", "parse"], "Trace_Numbers", {}),
    ("sr-record", ["--seed", 5, "--n", 40, "--mode", "ser"], "Trace_Ser", {}),
    ("sr-record", ["--seed", 5, "--n", 40, "--mode", "rt"], "Trace_Ser", {}),
    ("lz-record", ["--seed", 5, "--n", 40], "Trace_Lazy", {}),
    ("sk-record", ["--seed", 5, "--n", 40], "Trace_Skipper", {}),
    ("ty-record", ["--seed", 5, "--n", 90, "--mode", "conv"], "Trace_Serde", {}),
    ("ty-record", ["--seed", 5, "--n", 90, "--mode", "de"], "Trace_Serde", {}),
    ("ty-record", ["--seed", 5, "--n", 60, "--mode", "eq"], "Trace_Serde", {}),
]


def main():
    exe = build_harness()
    bad = 0
    for sub, args, module, consts in SUITES:
        args = list(args)
        if sub == "jt-record":
            args[args.index("--beh") + 1] = props.jt_behaviours("quick")[0]
            args[args.index("--tables") + 1] = vlib.tables()
        label = "%s_%s" % (sub, args[args.index("--mode") + 1] if "--mode" in args else "x")
        out = fresh("selftest", label)
        rc, o, err = run_vh(exe, [sub, "--out", os.path.join(out, "trace"), "--shards", 1] + args, inflight=os.path.join(out, "inflight"))
        if rc != 0:
            print("%-28s recorder failed rc=%s" % (label, rc)); bad += 1; continue
        tf = os.path.join(out, "trace.0.ndjson")
        lines = open(tf).read().splitlines()
        acc, rej = tlc_trace(module, [tf], consts=consts)
        rej = [r for r in rej if not r.get("tolerated")]
        if rej:
            print("%-28s honest trace rejected at line %s: %s" % (label, rej[0]["line_no"], rej[0]["why"][:100])); bad += 1; continue
        # corrupt one event (the first one that has a flippable field, not the first line so that the position is meaningful)
        k = None
        for i in range(min(3, len(lines) - 1), len(lines)):
            e = flip_first_ok(json.loads(lines[i]))
            if e is not None:
                k = i; lines2 = list(lines); lines2[i] = json.dumps(e); break
        if k is None:
            print("%-28s no flippable field" % label); bad += 1; continue
        tf2 = os.path.join(out, "corrupt.0.ndjson")
        open(tf2, "w").write("\n".join(lines2) + "\n")
        try:
            acc2, rej2 = tlc_trace(module, [tf2], consts=consts)
        except vlib.ToolError as e:
            # an ill-shaped event makes TLC fail to evaluate: also a rejection, but not a clean one
            print("%-28s honest %d lines accepted; corrupted line %d: TLC could not evaluate the event (counts as rejected)" % (label, acc, k + 1)); continue
        rej2 = [r for r in rej2 if not r.get("tolerated")]
        if rej2 and rej2[0]["line_no"] == k + 1:
            print("%-28s honest %d lines accepted; corrupted line %d rejected: %s" % (label, acc, k + 1, rej2[0]["why"][:80]))
        else:
            print("%-28s corrupted line %d NOT rejected (%s)" % (label, k + 1, rej2[:1])); bad += 1
    return 1 if bad else 0


if __name__ == "__main__":
    sys.exit(main())
