#!/bin/sh
# Build the conformance harness against /repo's working tree (offline) and export the spec tables.
set -e
cd "$(dirname "$0")/.."
export CARGO_NET_OFFLINE=true
mkdir -p work evidence
( cd harness && CARGO_ENCODED_RUSTFLAGS="$(printf -- '--cfg\037sonic_rs_verif\037--check-cfg\037cfg(sonic_rs_verif)\037-C\037target-cpu=native')" cargo build --release --offline --target-dir target >/dev/null 2>&1 ) || { echo "harness build failed" >&2; exit 1; }
python3 -c "
import sys; sys.path.insert(0,'bin'); import vlib; print(vlib.tables())"
