#!/bin/bash
# confirm_mutant.sh <worktree> <mutant-out-dir> <name>
# Confirms, in a scratch worktree: (1) suite passes with the patch, (2) demo fails with the patch, (3) demo passes without.
# Writes <mutant-out-dir>/confirm.json
WT=$1; M=$2; NAME=$3
cd "$WT" || exit 2
git checkout -q -- . ; git clean -fdq -e target
res() { echo "$1"; }
mkdir -p tests
cp "$M/demo.rs" tests/${NAME}_demo.rs
# (3) demo passes without patch
cargo test --offline --test ${NAME}_demo >/tmp/confirm_$NAME.clean.log 2>&1; CLEAN=$?
git apply "$M/patch.diff" || { echo '{"error":"patch does not apply"}' > "$M/confirm.json"; exit 1; }
cargo test --offline --test ${NAME}_demo >/tmp/confirm_$NAME.mut.log 2>&1; MUT=$?
rm -f tests/${NAME}_demo.rs; rmdir tests 2>/dev/null
cargo test --workspace --no-fail-fast --offline >/tmp/confirm_$NAME.suite.log 2>&1; SUITE=$?
PASSED=$(grep -E "^test result: ok" /tmp/confirm_$NAME.suite.log | head -2 | tr '\n' ' ')
git checkout -q -- . ; git clean -fdq -e target
echo "{\"demo_without_patch_rc\":$CLEAN,\"demo_with_patch_rc\":$MUT,\"suite_with_patch_rc\":$SUITE,\"suite\":\"$PASSED\"}" > "$M/confirm.json"
cat "$M/confirm.json"
