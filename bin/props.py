"""Per-property checks. Each returns the process exit code."""
import json, os, sys, time
import vlib
from vlib import Result, ToolError, log, wdir, fresh, tlc_mc, tlc_trace, build_harness, run_vh, tables, read_inflight

QUICK, THOROUGH = "quick", "thorough"


def jt_behaviours(tier, tag="jt", maxlen=None):
    """Exhaustive JsonText model check + behaviour emission (shared by several properties)."""
    d = wdir("beh")
    ml = maxlen or (8 if tier == QUICK else 9)
    path = os.path.join(d, "jt_%d.ndjson" % ml)
    stats_p = path + ".stats"
    src = [os.path.join(vlib.TLA, f) for f in ("JsonText.tla", "MC_JsonText.tla", "Numbers.tla")]
    stamp = "".join(str(os.path.getmtime(f)) for f in src)
    if os.path.exists(path) and os.path.exists(stats_p):
        st = json.load(open(stats_p))
        if st.get("stamp") == stamp:
            st["reused_from_cache"] = True      # same specification files (mtime stamp): the emitted behaviours of the earlier TLC run are reused
            return path, st
    st = tlc_mc("MC_JsonText", {"MaxLen": ml, "MaxDepth": 3, "EmitOn": "TRUE"}, emit_path=path, tag="MC_JsonText_%d" % ml)
    st["stamp"] = stamp
    st["maxlen"] = ml
    st.pop("log_tail", None)
    json.dump(st, open(stats_p, "w"))
    return path, st


def run_replay_with_crash_isolation(exe, args, outdir, res, what, nshards=16):
    """Runs a replay sub-command in `nshards` parallel worker processes; a crash (signal) is attributed
    to the case in flight, reported, and the shard continues after it.  Returns the merged summary."""
    import concurrent.futures

    def shard(i):
        infl = os.path.join(outdir, "inflight.%d" % i)
        skip = 0
        crashes = []
        while True:
            rc, out, err = run_vh(exe, args + ["--skip-to", skip, "--shard", i, "--nshards", nshards], inflight=infl)
            if rc == 0:
                break
            cid, hx = read_inflight(infl)
            if (rc > 0 and rc not in (101, 134)) or cid is None:
                sys.stderr.write(err[-3000:])
                raise ToolError("harness failed rc=%s" % rc)
            crashes.append({"suite": what, "class": "crash", "kind": "crash", "rc": rc, "case": cid, "bytes_hex": hx,
                            "bytes_lossy": bytes.fromhex(hx).decode("utf-8", "replace"),
                            "why": "process died (rc %s) while running case %s: %s" % (rc, cid, err[-300:])})
            skip = cid + 1
            if len(crashes) > 20:
                raise ToolError("too many crashes in one shard")
        return json.load(open(os.path.join(outdir, "summary.%d.json" % i))), crashes

    merged = None
    with concurrent.futures.ThreadPoolExecutor(max_workers=nshards) as ex:
        for summ, crashes in ex.map(shard, range(nshards)):
            for c in crashes:
                res.add_mismatch(c)
            if merged is None:
                merged = summ
                continue
            for k in ("cases", "evaluations", "nontrivial", "panics", "value_checks", "leak_checks", "histories", "steps"):
                if k in merged or k in summ:
                    merged[k] = merged.get(k, 0) + summ.get(k, 0)
            for k, v in summ.get("per_op", {}).items():
                merged["per_op"][k] = merged["per_op"].get(k, 0) + v
            for k, v in summ.get("per_ep", {}).items():
                m = merged["per_ep"].setdefault(k, {"ok": 0, "err": 0})
                m["ok"] += v["ok"]
                m["err"] += v["err"]
            for k, v in summ.get("per_kind", {}).items():
                merged["per_kind"][k] = merged["per_kind"].get(k, 0) + v
            merged["mismatches"] += summ["mismatches"]
            merged["samples"] += summ["samples"]
    return merged


def jt_replay(prop, tier, seed, res, exe=None, classes=("verdict", "panic", "crash")):
    beh, st = jt_behaviours(tier)
    exe = exe or build_harness()
    out = fresh(prop, "replay")
    summ = run_replay_with_crash_isolation(exe, ["jt-replay", "--beh", beh, "--tables", tables(), "--seed", seed,
                                           "--tier", tier, "--out", out, "--prop", prop], out, res, "jt-replay")
    for m in summ["mismatches"]:
        if m.get("class") in classes:
            res.add_mismatch(m)
    c = res.coverage
    c["states"] += st["distinct"]
    c["transitions"] += st["states"]
    c["evaluations"] += summ["evaluations"]
    c["distinct_nontrivial"] += summ["nontrivial"]
    c["traces_validated_against_impl"] += summ["behaviours"]
    c["samples"] += summ["samples"][:3]
    c.setdefault("replay", {})["jt"] = {k: summ[k] for k in ("behaviours", "cases", "evaluations", "per_ep", "per_kind", "panics", "value_checks", "leak_checks")}
    c.setdefault("tlc", {})["MC_JsonText"] = st
    return summ


def jt_record_validate(prop, tier, seed, res, n, exe=None, checks=("verdict", "panic"), label="record"):
    exe = exe or build_harness()
    beh, st = jt_behaviours(tier)
    out = fresh(prop, label)
    shards = 16
    rc, o, err = run_vh(exe, ["jt-record", "--seed", seed, "--n", n, "--out", os.path.join(out, "trace"), "--shards", shards,
                             "--beh", beh, "--tables", tables()], inflight=os.path.join(out, "inflight"))
    if rc != 0:
        cid, hx = read_inflight(os.path.join(out, "inflight"))
        res.add_mismatch({"suite": "jt-record", "kind": "crash", "rc": rc, "case": cid, "bytes_hex": hx,
                          "why": "process died (rc %s) while recording case %s" % (rc, cid)})
        return
    summ = json.loads(o.strip().splitlines()[-1])
    files = [os.path.join(out, "trace.%d.ndjson" % i) for i in range(shards)]
    t0 = time.time()
    accepted, rejects = tlc_trace("Trace_JsonText", files, consts={"Checks": "{%s}" % ", ".join('"%s"' % c for c in checks)})
    log("trace validation: %d lines accepted, %d rejects, %.1fs" % (accepted, len(rejects), time.time() - t0))
    for r in rejects:
        ev = r["event"] or {}
        bad = json.loads(r["why"]) if r["why"].startswith("[") else [r["why"]]
        for ep in bad:
            x = ev.get("res", {}).get(ep, {})
            res.add_mismatch({"suite": "jt-trace", "ep": ep, "sem": x.get("sem"), "kind": ev.get("origin"),
                              "bytes_hex": bytes(ev.get("b", [])).hex(), "bytes_lossy": bytes(ev.get("b", [])).decode("utf-8", "replace"),
                              "impl": x, "why": "trace line %d rejected by Trace_JsonText for entry point %s (impl ok=%s)" % (r["line_no"], ep, x.get("ok")),
                              "trace_file": r["file"], "line_no": r["line_no"]})
    c = res.coverage
    c["traces_validated_against_impl"] += accepted
    c["states"] += accepted + len(files)
    c["transitions"] += accepted
    c["evaluations"] += summ["events"]
    c.setdefault("record", {})["jt" if label == "record" else label] = dict(summ, accepted_lines=accepted, rejected=len(rejects))
    if summ["events"]:
        with open(files[0]) as f:
            ev = json.loads(f.readline())
        c["samples"].append({"trace_event": {"origin": ev["origin"], "bytes": bytes(ev["b"]).decode("utf-8", "replace"),
                                             "res": {k: v.get("ok") for k, v in ev["res"].items()}}})
    return files


def check_C02(tier, seed):
    res = Result("C02", tier, seed, "model_checking")
    res.coverage["rule"] = ("TLC enumerates every class string up to MaxLen over the 44-class alphabet (bisimulation quotient per state), "
                            "checks operational PDA == declarative grammar for the strict and the validate-and-skip machine; every explored text "
                            "is concretised (bytes of a class, classes of a partition block, self-loop runs of length 1..130) and executed on "
                            "21 entry points; recorded random/mutated documents are validated by TLC against the byte-level machine. "
                            "non-trivial = grammar-valid texts of >= 3 classes")
    res.assumptions += ["nesting depth in the exhaustive model is 3 (the implementation limit is not reached)",
                        "digit substitutions are suppressed where a number has an exponent of >= 3 digits (strict verdict depends on magnitude)"]
    jt_replay("C02", tier, seed, res)
    jt_record_validate("C02", tier, seed, res, 4000 if tier == QUICK else 200000)
    res.coverage["exhaustive"] = True
    return res.finish()


def check_C03(tier, seed):
    res = Result("C03", tier, seed, "model_checking")
    res.coverage["rule"] = ("every accepted class string explored by TLC is parsed through the whole-input in-place path, the embedded copy path "
                            "(tuple, struct, second document of a stream) and the raw-number / lossy configurations; the returned Value is walked through "
                            "the public read API and compared with Denotes(text) emitted by TLC (S->I); recorded random documents: TLC evaluates "
                            "Denotes(bytes) and compares the dump, numbers by classification, integer digits and exact correctly-rounded binary64 (I->S); "
                            "MC_JsonValue checks Denotes(Render(v)) = v. non-trivial = grammar-valid texts of >= 3 classes")
    res.assumptions += ["float values in the S->I direction are compared by classification only (exactness is decided by the I->S pass and by C07)"]
    jt_replay("C03", tier, seed, res, classes=("value", "inconsistent"))
    jt_record_validate("C03", tier, seed + 1, res, 4000 if tier == QUICK else 200000, checks=("value",))
    res.coverage["exhaustive"] = True
    return res.finish()


def check_C20(tier, seed):
    res = Result("C20", tier, seed, "model_checking")
    res.coverage["rule"] = ("every rejected document of the generators (truncations, single-byte corruptions, invalid UTF-8, multi-line documents) on every "
                            "entry point: TLC checks offset <= length, (line, column) = LineCol(input, offset), Display/Debug returned, no lookup category; "
                            "streams and iterators are polled 3 more times after the first error/end (latch). non-trivial = rejected inputs with an error record")
    jt_record_validate("C20", tier, seed + 2, res, 6000 if tier == QUICK else 300000, checks=("errpos", "panic"))
    # terminal latch of streams and lazy iterators (polled 3 more times after the first error / end)
    lg_record_validate("C20", tier, seed + 20, res, 3000 if tier == QUICK else 100000, ("latch", "panic"))
    st = vlib.tlc_mc("MC_Errors", {}, tag="MC_Errors")
    res.coverage["states"] += st["distinct"]
    res.coverage["transitions"] += st["states"]
    res.coverage.setdefault("tlc", {})["MC_Errors"] = {k: st[k] for k in ("states", "distinct", "seconds")}
    res.coverage["distinct_nontrivial"] = res.coverage.get("record", {}).get("jt", {}).get("rejected_docs", 0)
    return res.finish()


def check_C01(tier, seed):
    res = Result("C01", tier, seed, "exploration")
    res.coverage["rule"] = ("the input spaces of the JsonText behaviours (exhaustive class strings, concretised; leaf completions; loop runs) and of the "
                            "random/mutation generators are executed on all byte-string entry points in a crash-isolated worker with overflow checks and "
                            "debug assertions (std UB precondition checks) enabled; observations: panic, abort/signal, heap growth across a repeated case, "
                            "deep nesting family, guard-page placement. non-trivial = grammar-valid texts of >= 3 classes")
    jt_replay("C01", tier, seed, res, classes=("panic", "crash", "leak"))
    jt_record_validate("C01", tier, seed + 3, res, 4000 if tier == QUICK else 300000, checks=("panic",))
    # lazy lookups / iterators on generated, mutated and block-edge documents: panic and crash observation
    lg_record_validate("C01", tier, seed + 4, res, 3000 if tier == QUICK else 200000, ("panic",))
    # the serializer in a plain optimised build (code under cfg(not(debug_assertions))): strings ending against an inaccessible page
    generic_record_validate("C01", res, "sr-record", ["--seed", seed + 5, "--n", 2000 if tier == QUICK else 100000, "--mode", "ser"], "Trace_Ser", {}, "ser_fast", profile="fast")
    nest_family(res, tier)
    # scale: containers and strings past 2^16 / 2^24, documents of growing size on one thread (thread-local parse buffers)
    big_replay("C01", tier, res)
    return res.finish()


def nest_family(res, tier):
    """Nest(k): the spec's nesting action iterated k times; each case in its own process (bounded stack is part of C01)."""
    import concurrent.futures, subprocess
    exe = build_harness()
    depths = [100, 1000, 10000, 100000, 1000000]
    cases = [(k, ep, d, c, t) for k in ("arr", "obj", "mixed") for ep in ("value", "lazy", "ownedlazy", "ignored", "sjvalue", "get", "array_iter")
             for d in depths for c in (1, 0) for t in (0, 1) if not (t == 1 and d < 100000)]
    if tier == QUICK:
        cases = [c for c in cases if c[0] != "mixed" or c[2] >= 100000]

    def one(c):
        k, ep, d, cl, t = c
        try:
            p = subprocess.run([exe, "nest", "--kind", k, "--ep", ep, "--depth", str(d), "--closed", str(cl), "--thread", str(t)],
                               stdout=subprocess.PIPE, stderr=subprocess.PIPE, text=True, timeout=300)
            return c, p.returncode, p.stdout.strip(), p.stderr.strip()[-200:]
        except subprocess.TimeoutExpired:
            return c, 124, "timeout", ""
    n = 0
    outcomes = {}
    with concurrent.futures.ThreadPoolExecutor(max_workers=8) as ex:
        for c, rc, out, err in ex.map(one, cases):
            n += 1
            key = "ok" if rc == 0 else ("panic" if rc == 3 else "crash")
            outcomes[key] = outcomes.get(key, 0) + 1
            if rc != 0:
                k, ep, d, cl, t = c
                res.add_mismatch({"suite": "nest", "class": "crash" if rc != 3 else "panic", "ep": ep, "kind": k, "depth": d, "closed": cl, "small_stack": t, "rc": rc,
                                  "bytes_lossy": "%s nested %d deep, %s, entry point %s" % (k, d, "closed" if cl else "unclosed", ep),
                                  "why": "nesting depth %d (%s, %s) on %s: process ended with rc %s: %s %s" % (d, k, "closed" if cl else "unclosed", ep, rc, out, err)})
    res.coverage["evaluations"] += n
    res.coverage.setdefault("nest", {}).update({"cases": n, "outcomes": outcomes, "depths": depths})



def lg_record_validate(prop, tier, seed, res, n, checks, exe=None, label="lg"):
    exe = exe or build_harness()
    out = fresh(prop, label)
    shards = 16
    rc, o, err = run_vh(exe, ["lg-record", "--seed", seed, "--n", n, "--out", os.path.join(out, "trace"), "--shards", shards],
                        inflight=os.path.join(out, "inflight"))
    if rc != 0:
        cid, hx = read_inflight(os.path.join(out, "inflight"))
        res.add_mismatch({"suite": "lg-record", "class": "crash", "kind": "crash", "rc": rc, "case": cid, "bytes_hex": hx,
                          "bytes_lossy": bytes.fromhex(hx).decode("utf-8", "replace"),
                          "why": "process died (rc %s) while recording case %s: %s" % (rc, cid, err[-300:])})
        return
    summ = json.loads(o.strip().splitlines()[-1])
    files = [os.path.join(out, "trace.%d.ndjson" % i) for i in range(shards)]
    t0 = time.time()
    accepted, rejects = tlc_trace("Trace_LazyGet", files, consts={"Checks": "{%s}" % ", ".join('"%s"' % c for c in checks)})
    log("lazy-get trace validation: %d lines accepted, %d rejects, %.1fs" % (accepted, len(rejects), time.time() - t0))
    for r in rejects:
        ev = r["event"] or {}
        bad = json.loads(r["why"]) if r["why"].startswith("[") else [r["why"]]
        for ep in bad:
            x = ev.get("res", {}).get(ep, {})
            res.add_mismatch({"suite": "lg-trace", "ev": ev.get("ev"), "ep": ep, "kind": ev.get("origin"),
                              "bytes_hex": bytes(ev.get("b", [])).hex(), "bytes_lossy": bytes(ev.get("b", [])).decode("utf-8", "replace"),
                              "path": ev.get("path", ev.get("paths")), "impl": x,
                              "why": "trace line %d (%s event) rejected by Trace_LazyGet for entry point %s" % (r["line_no"], ev.get("ev"), ep),
                              "trace_file": r["file"], "line_no": r["line_no"]})
    c = res.coverage
    c["traces_validated_against_impl"] += accepted
    c["states"] += accepted + len(files)          # TLC states of the trace specification (one per consumed line + initial)
    c["transitions"] += accepted
    c["evaluations"] += summ["events"]
    c.setdefault("record", {})[label] = dict(summ, accepted_lines=accepted, rejected=len(rejects))
    with open(files[0]) as f:
        ev = json.loads(f.readline())
    c["samples"].append({"trace_event": {"ev": ev["ev"], "origin": ev.get("origin"), "bytes": bytes(ev["b"]).decode("utf-8", "replace")[:200],
                                         "path": ev.get("path", ev.get("paths")), "res": {k: v.get("ok", v.get("items")) for k, v in ev["res"].items()}}})
    return files


def skipper_mc(res, tier):
    """Skipper.tla: the bit-parallel per-block formulation (as the code computes it) against the scalar reference, exhaustively at small block sizes"""
    d = wdir("beh")
    configs = [(4, 7)] if tier == QUICK else [(4, 9), (2, 8)]
    for B, maxlen in configs:
        stats_p = os.path.join(d, "skipper_%d_%d.stats" % (B, maxlen))
        src = [os.path.join(vlib.TLA, f) for f in ("Skipper.tla", "MC_Skipper.tla", "MC_Skipper.cfg")]
        stamp = "".join(str(os.path.getmtime(f)) for f in src)
        st = None
        if os.path.exists(stats_p):
            st = json.load(open(stats_p))
            if st.get("stamp") != stamp:
                st = None
            else:
                st["reused_from_cache"] = True
        if st is None:
            st = tlc_mc("MC_Skipper", {"B": B, "MaxLen": maxlen}, tag="MC_Skipper_%d_%d" % (B, maxlen), workers=8)
            st["stamp"] = stamp
            st.pop("log_tail", None)
            json.dump(st, open(stats_p, "w"))
        res.coverage["states"] += st["distinct"]
        res.coverage["transitions"] += st["states"]
        res.coverage.setdefault("tlc", {})["MC_Skipper_B%d_len%d" % (B, maxlen)] = {k: st[k] for k in st if k in ("states", "distinct", "seconds", "reused_from_cache")}


def lg_beh_validate(prop, tier, seed, res, checks, phase=0, only_value=False):
    """exhaustive small scope for the lazy APIs: the texts explored by MC_JsonText (well-formed and malformed) x candidate paths
    through get / get_many / iterators, validated by Trace_LazyGet.  quick: a stride sample of about 2500 texts; thorough: about 100000"""
    beh, st = jt_behaviours(tier)
    exe = build_harness()
    out = fresh(prop, "lg_beh")
    shards = 16
    want = 2500 if tier == QUICK else 100000
    # texts whose first value is complete are about a twentieth of the explored texts
    stride = max(1, int(st.get("emitted", 0)) // (want * (20 if only_value else 1)))
    rc, o, err = run_vh(exe, ["lg-record-beh", "--beh", beh, "--tables", tables(), "--stride", stride, "--phase", (phase + seed) % stride, "--seed", seed,
                             "--out", os.path.join(out, "trace"), "--shards", shards] + (["--filter", "value"] if only_value else []), inflight=os.path.join(out, "inflight"))
    if rc != 0:
        cid, hx = read_inflight(os.path.join(out, "inflight"))
        res.add_mismatch({"suite": "lg-record-beh", "class": "crash", "kind": "crash", "rc": rc, "case": cid, "bytes_hex": hx,
                          "bytes_lossy": bytes.fromhex(hx).decode("utf-8", "replace") if hx else "",
                          "why": "process died (rc %s) while recording explored text %s: %s" % (rc, cid, err[-300:])})
        return
    summ = json.loads(o.strip().splitlines()[-1])
    files = [os.path.join(out, "trace.%d.ndjson" % i) for i in range(shards)]
    t0 = time.time()
    accepted, rejects = tlc_trace("Trace_LazyGet", files, consts={"Checks": "{%s}" % ", ".join('"%s"' % c for c in checks)})
    log("lazy-get over explored texts: %d events accepted, %d rejects, %.1fs" % (accepted, len(rejects), time.time() - t0))
    for r in rejects:
        ev = r["event"] or {}
        bad = json.loads(r["why"]) if r["why"].startswith("[") else [r["why"]]
        for ep in bad:
            x = ev.get("res", {}).get(ep, {})
            res.add_mismatch({"suite": "lg-beh-trace", "ev": ev.get("ev"), "ep": ep, "kind": ev.get("origin"),
                              "bytes_hex": bytes(ev.get("b", [])).hex(), "bytes_lossy": bytes(ev.get("b", [])).decode("utf-8", "replace"),
                              "path": ev.get("path", ev.get("paths")), "impl": x,
                              "why": "explored text, trace line %d (%s event) rejected by Trace_LazyGet for entry point %s" % (r["line_no"], ev.get("ev"), ep),
                              "trace_file": r["file"], "line_no": r["line_no"]})
    c = res.coverage
    c["traces_validated_against_impl"] += accepted
    c["states"] += accepted + len(files)
    c["transitions"] += accepted
    c["evaluations"] += summ["events"]
    c.setdefault("record", {})["lg_beh"] = dict(summ, accepted_lines=accepted, rejected=len(rejects))
    c.setdefault("tlc", {})["MC_JsonText"] = {k: st[k] for k in st if k in ("states", "distinct", "emitted", "seconds", "reused_from_cache")}


def check_C10(tier, seed):
    res = Result("C10", tier, seed, "model_checking")
    res.coverage["rule"] = ("recorded get / get_unchecked / carrier / DOM-lazy-owned pointer calls on generated, mutated and block-edge stress documents; TLC recomputes "
                            "Lookup(Denotes(bytes), path) (first member wins) and compares Ok/Err, the returned span by byte offsets, and the error category")
    lg_record_validate("C10", tier, seed, res, 12000 if tier == QUICK else 300000, ("c10", "panic"))
    lg_beh_validate("C10", tier, seed, res, ("c10", "panic"), phase=0, only_value=True)
    # the bitmap container skipper behind get_unchecked / lazy iteration: model (bit-parallel = scalar reference at small block sizes)
    # and the real per-block step at block size 64 (hook) replayed through the specification
    skipper_mc(res, tier)
    generic_record_validate("C10", res, "sk-record", ["--seed", seed, "--n", 2500 if tier == QUICK else 120000], "Trace_Skipper", {}, "skipper")
    return res.finish()


def check_C11(tier, seed):
    res = Result("C11", tier, seed, "model_checking")
    res.coverage["rule"] = ("recorded get_many / get_many_unchecked calls with shape-consistent path sets (shared prefixes, repeated paths, prefix that is also a target, "
                            "missing keys) on generated duplicate-free documents: TLC checks one slot per path in order, filled slot = Lookup span, empty slot = unknown key, "
                            "all filled when every path resolves")
    lg_record_validate("C11", tier, seed + 11, res, 6000 if tier == QUICK else 200000, ("c11", "panic"))
    lg_beh_validate("C11", tier, seed, res, ("c11", "panic"), phase=1, only_value=True)
    return res.finish()


def check_C12(tier, seed):
    res = Result("C12", tier, seed, "model_checking")
    res.coverage["rule"] = ("recorded runs of the four lazy iterators (+ unchecked, + LazyValue::into_*_iter) and of the stream deserializer, polled 3 more times after "
                            "the first error/end: TLC compares the yielded spans and decoded keys with Members(first value) on well-formed input, with the members "
                            "completed before the lax machine rejects on malformed input (then exactly one error), and checks the latch")
    lg_record_validate("C12", tier, seed + 12, res, 6000 if tier == QUICK else 200000, ("c12", "latch", "stream", "panic"))
    lg_beh_validate("C12", tier, seed, res, ("c12", "latch", "stream", "panic"), phase=2, only_value=True)
    return res.finish()


def check_C14(tier, seed):
    res = Result("C14", tier, seed, "model_checking")
    res.coverage["rule"] = ("recorded checked get / get_many / iterator calls on mutated, truncated and garbage documents: whenever a value is returned TLC checks that its raw "
                            "text is a well-formed value with valid UTF-8 inside the input, and that the lax machine run over the bytes before it, without rejecting, is "
                            "exactly at the value of the target (one open container per path element, wanted key pending / index reached)")
    lg_record_validate("C14", tier, seed + 14, res, 6000 if tier == QUICK else 200000, ("c14", "panic"))
    lg_beh_validate("C14", tier, seed, res, ("c14", "panic"), phase=3)
    return res.finish()


def generic_record_validate(prop, res, sub, args, trace_module, consts, label, shards=16, features=(), variant="native", profile="release"):
    """run a `vh <sub>` recorder and validate its shards with a Trace_* spec"""
    exe = build_harness(features=features, variant=variant, profile=profile)
    out = fresh(prop, label)
    rc, o, err = run_vh(exe, [sub, "--out", os.path.join(out, "trace"), "--shards", shards] + args, inflight=os.path.join(out, "inflight"))
    if rc != 0:
        cid, hx = read_inflight(os.path.join(out, "inflight"))
        res.add_mismatch({"suite": sub, "class": "crash", "kind": "crash", "rc": rc, "case": cid, "bytes_hex": hx,
                          "bytes_lossy": bytes.fromhex(hx).decode("utf-8", "replace") if hx else "",
                          "why": "process died (rc %s) while recording case %s: %s" % (rc, cid, err[-300:])})
        return None
    summ = json.loads(o.strip().splitlines()[-1])
    files = [f for f in (os.path.join(out, "trace.%d.ndjson" % i) for i in range(shards)) if os.path.getsize(f) > 0]
    t0 = time.time()
    accepted, rejects = tlc_trace(trace_module, files, consts=consts)
    log("%s: %d lines accepted, %d rejects, %.1fs" % (trace_module, accepted, len(rejects), time.time() - t0))
    for r in rejects:
        ev = r["event"] or {}
        lit = bytes(ev.get("lit", ev.get("b", ev.get("text", []) if isinstance(ev.get("text"), list) else [])))
        res.add_mismatch({"suite": sub + "-trace", "ev": ev.get("ev"), "ep": r["why"], "kind": ev.get("origin"),
                          "bytes_hex": lit.hex(), "bytes_lossy": lit.decode("utf-8", "replace"), "event": ev,
                          "why": "trace line %d rejected by %s: %s" % (r["line_no"], trace_module, r["why"][:200]),
                          "trace_file": r["file"], "line_no": r["line_no"]})
    c = res.coverage
    c["traces_validated_against_impl"] += accepted
    c["states"] += accepted + len(files)
    c["transitions"] += accepted
    c["evaluations"] += summ["events"]
    c.setdefault("record", {})[label] = dict(summ, accepted_lines=accepted, rejected=len(rejects))
    if files:
        with open(files[0]) as f:
            ev = json.loads(f.readline())
        c["samples"].append({"trace_event": {k: (bytes(v).decode("utf-8", "replace")[:120] if k in ("lit", "b") else v) for k, v in ev.items() if k in ("ev", "origin", "lit", "b", "ws")}})
    summ["_files"] = [os.path.join(out, "trace.%d.ndjson" % i) for i in range(shards)]
    return summ


def check_C09(tier, seed):
    res = Result("C09", tier, seed, "model_checking")
    res.coverage["rule"] = ("literals plain^p special plain^(L-p) (31 specials: every escape form, control characters, multibyte and invalid UTF-8, bad escapes, unpaired surrogates; "
                            "optional leading escape, second special) x start offset 0..64 x what follows, through 13 strict and 6 lossy decoders; plus the \\uXXXX / surrogate-pair "
                            "table (quick: stride 53; thorough: all 1,114,112 code points); TLC decodes each literal with the payload layer of JsonText and compares text, Ok/Err and borrowed-ness")
    generic_record_validate("C09", res, "st-record", ["--seed", seed, "--n", 6000 if tier == QUICK else 400000, "--mode", "sweep"], "Trace_Strings", {}, "sweep")
    generic_record_validate("C09", res, "st-record", ["--seed", seed, "--n", 53 if tier == QUICK else 1, "--mode", "codepoints"], "Trace_Strings", {}, "codepoints")
    # the library built with its utf8_lossy feature: from_slice / from_str are lossy decoders themselves
    generic_record_validate("C09", res, "st-record", ["--seed", seed + 9, "--n", 3000 if tier == QUICK else 200000, "--mode", "sweep"], "Trace_Strings", {}, "sweep_feature_lossy", features=("utf8_lossy",))
    return res.finish()


def dom_sim_behaviours(seed):
    """thorough tier: the exhaustive space of length-4 histories no longer finishes (3.6 million states with two slots already), so the
    faithful model is run in TLC's simulation mode: random histories of length 7 on three slots, every invariant evaluated on every state"""
    d = wdir("beh")
    nsim = 150000
    path = os.path.join(d, "dom_sim_%d_%d.ndjson" % (seed, nsim))
    stats_p = path + ".stats"
    src = [os.path.join(vlib.TLA, f) for f in ("Dom.tla", "MC_Dom.tla", "MC_Dom.cfg")]
    stamp = "".join(str(os.path.getmtime(f)) for f in src)
    if os.path.exists(path) and os.path.exists(stats_p):
        st = json.load(open(stats_p))
        if st.get("stamp") == stamp:
            st["reused_from_cache"] = True
            return path, st
    st = tlc_mc("MC_Dom", {"MaxOps": 7, "MaxId": 14, "EmitOn": "TRUE"}, emit_path=path, tag="MC_Dom_sim", simulate=(nsim, 8, 1000 + seed), timeout=3000, workers=8)
    st["stamp"] = stamp
    st.pop("log_tail", None)
    json.dump(st, open(stats_p, "w"))
    return path, st


def dom_behaviours(tier):
    d = wdir("beh")
    k = 3
    path = os.path.join(d, "dom_%d.ndjson" % k)
    stats_p = path + ".stats"
    src = [os.path.join(vlib.TLA, f) for f in ("Dom.tla", "MC_Dom.tla", "MC_Dom.cfg")]
    stamp = "".join(str(os.path.getmtime(f)) for f in src)
    if os.path.exists(path) and os.path.exists(stats_p):
        st = json.load(open(stats_p))
        if st.get("stamp") == stamp:
            st["reused_from_cache"] = True      # same specification files (mtime stamp): the emitted behaviours of the earlier TLC run are reused
            return path, st
    st = tlc_mc("MC_Dom", {"MaxOps": k, "EmitOn": "TRUE"}, emit_path=path, tag="MC_Dom_%d" % k)
    st["stamp"] = stamp
    st["maxops"] = k
    st.pop("log_tail", None)
    json.dump(st, open(stats_p, "w"))
    return path, st


def dom_replay(prop, tier, seed, res, classes, extra=(), label="dom", sim=False):
    beh, st = dom_sim_behaviours(seed) if sim else dom_behaviours(tier)
    exe = build_harness()
    out = fresh(prop, label)
    summ = run_replay_with_crash_isolation(exe, ["dom-replay", "--beh", beh, "--seed", seed, "--out", out] + list(extra), out, res, "dom-replay")
    for m in summ["mismatches"]:
        if m.get("class") in classes:
            res.add_mismatch(m)
    c = res.coverage
    c["states"] += st["distinct"]
    c["transitions"] += st["states"]
    c["evaluations"] += summ["steps"]
    c["distinct_nontrivial"] += summ["nontrivial"]
    c["traces_validated_against_impl"] += summ["histories"]
    c["samples"] += summ["samples"][:2]
    c.setdefault("replay", {})[label] = {k: summ[k] for k in ("histories", "steps", "per_op")}
    c.setdefault("tlc", {})["MC_Dom_sim" if sim else "MC_Dom"] = st
    return summ


def big_replay(prop, tier, res):
    """scale concretisation (dom.rs: big): the repeated part of a short behaviour iterated past 2^16 / 2^24 members or bytes, in its own process"""
    exe = build_harness()
    out = fresh(prop, "big")
    rc, o, err = run_vh(exe, ["big", "--out", out, "--tier", tier], timeout=3600)
    if rc != 0:
        res.add_mismatch({"suite": "big", "class": "crash", "rc": rc, "why": "process died (rc %s) in the scale cases: %s" % (rc, err[-300:])})
        return
    summ = json.load(open(os.path.join(out, "summary.0.json")))
    for m in summ["mismatches"]:
        res.add_mismatch(m)
    res.coverage["evaluations"] += summ["cases"]
    res.coverage.setdefault("replay", {})["big"] = {"cases": summ["cases"], "counts": summ["counts"]}


def check_C15(tier, seed):
    res = Result("C15", tier, seed, "model_checking")
    res.coverage["rule"] = ("TLC explores every history of length 3 over {parse (2 documents), new, build, clone of any subtree, drop, take, 15 array operations, 10 object operations, "
                            "append} on 3 slots, checking that the copy-on-write representation denotes the reference model of vectors and maps in every slot (Refines); every history is "
                            "replayed on real Values (three ways of reaching &mut), comparing results, rejected calls and the full contents of every slot after every step. "
                            "non-trivial = histories containing at least one mutation")
    dom_replay("C15", tier, seed, res, ("dom", "crash", "panic"))
    if tier != QUICK:
        dom_replay("C15", tier, seed, res, ("dom", "crash", "panic"), label="dom_sim", sim=True)
    res.coverage["exhaustive"] = True
    return res.finish()


def check_C16(tier, seed):
    res = Result("C16", tier, seed, "model_checking")
    res.coverage["rule"] = ("same histories: TLC checks RcExact (every count = number of live handles), NoLeakNoDangling (alive <=> referenced, released exactly once), AllDroppedEmpty; "
                            "the replay compares the number of live arenas after every step (hook: released-arena counter) and requires the heap to return exactly to its previous level "
                            "after every history; survivors are read in full after their document is dropped; the histories are replayed a second time with every step on a fresh OS thread and a final "
                            "phase in which every remaining value and a clone of it are read and dropped by concurrent threads (barrier). non-trivial = histories containing at least one mutation")
    dom_replay("C16", tier, seed, res, ("arena", "leak", "crash"))
    # "from any thread": the same histories with every step on a fresh OS thread (values created, mutated and dropped on different threads),
    # then every remaining value and a clone of it read in full and dropped by concurrent threads released by a barrier
    dom_replay("C16", tier, seed, res, ("arena", "leak", "crash", "dom", "panic"), extra=["--threads", 1], label="dom_threads")
    if tier != QUICK:
        dom_replay("C16", tier, seed, res, ("arena", "leak", "crash"), label="dom_sim", sim=True)
        dom_replay("C16", tier, seed, res, ("arena", "leak", "crash", "dom", "panic"), extra=["--threads", 1], label="dom_sim_threads", sim=True)
    # every node finds its arena through index / length fields of fixed width: containers and strings past 2^16 and 2^24
    big_replay("C16", tier, res)
    # values own their data: entry points that overwrite the input buffer before reading the value (incl. the
    # embedded / stream / raw-number paths) are judged by the denotation of the text
    jt_record_validate("C16", tier, seed + 16, res, 3000 if tier == QUICK else 100000, checks=("value", "panic"))
    res.coverage["exhaustive"] = True
    return res.finish()


def check_C13(tier, seed):
    res = Result("C13", tier, seed, "model_checking")
    res.coverage["rule"] = ("accessor sets (type, is_*, bool, str, number, raw number, serialisation, container length) of LazyValue / OwnedLazyValue obtained through get, "
                            "from_slice + pointer, From<LazyValue>, clone after cache fill, at every path of generated documents and for scalar documents of every JSON type; "
                            "histories of clone / read / push / pop / append_pair / replace / take / get_mut on OwnedLazyValue: TLC denotes every recorded serialisation and compares "
                            "it with the plain-tree model after each step (clone unaffected by later mutation)")
    generic_record_validate("C13", res, "lz-record", ["--seed", seed, "--n", 6000 if tier == QUICK else 200000], "Trace_Lazy", {}, "lazy")
    return res.finish()


def check_C18(tier, seed):
    res = Result("C18", tier, seed, "model_checking")
    res.coverage["rule"] = ("TLC explores every interleaving of 2-3 threads running {as_str / get, clone+drop} on one shared lazy value at the granularity of the atomic operations on "
                            "the shared cell, with the compare-exchange primitive the code is observed to use (probe through the shim); invariants: no null/dangling dereference, all "
                            "readers agree, one survivor, everything released exactly once. Every maximal schedule is replayed on real threads under the controlled scheduler (hook H3), "
                            "checking the values each thread observed and that the heap returns to its level after the owner drops the value")
    exe = build_harness()
    rc, o, err = run_vh(exe, ["lc-probe"])
    if rc != 0:
        res.add_mismatch({"suite": "lc-probe", "class": "crash", "why": "probe died rc=%s %s" % (rc, err[-300:])})
        return res.finish()
    prims = json.loads(o.strip().splitlines()[-1])
    res.coverage["primitive_observed"] = prims
    progsets = [("read", "read", None), ("read", "clone", None), ("read", "read", "read"), ("read", "read", "clone"), ("read", "clone", "clone")]
    if tier == QUICK:
        progsets = progsets[:4]
    d = wdir("beh")
    for variant in ("lazy", "owned"):
        pv = prims.get(variant)
        weak = isinstance(pv, list) and "CasWeak" in pv
        if not isinstance(pv, list):
            res.add_mismatch({"suite": "lc-probe", "class": "sched", "variant": variant, "why": "probe schedule load;cas not realisable: %s" % pv})
            continue
        for ps in progsets:
            threads = '{"t1", "t2"}' if ps[2] is None else '{"t1", "t2", "t3"}'
            tag = "%s_%s_%s" % (variant, "".join(p[0] for p in ps if p), "weak" if weak else "strong")
            beh = os.path.join(d, "lc_%s.ndjson" % tag)
            consts = {"Threads": threads, "P1": '"%s"' % ps[0], "P2": '"%s"' % ps[1], "P3": '"%s"' % (ps[2] or "read"), "WeakCas": "TRUE" if weak else "FALSE", "EmitOn": "TRUE"}
            if weak:
                st = tlc_mc("MC_LazyCache", consts, emit_path=beh, tag="MC_LazyCache_" + tag, cfg=os.path.join(vlib.TLA, "MC_LazyCache_weak.cfg"), workers=4)
                n = vlib.count_lines(beh)
                if n:
                    first = json.loads(open(beh).readline())
                    res.add_mismatch({"suite": "lc-mc", "class": "mc", "variant": variant, "prog": ps, "sched": first["sched"],
                                      "why": "the code publishes the %s cache with compare_exchange_weak: in the model with spurious failure %d schedules dereference the null witness "
                                             "(NoBadDeref violated), e.g. %s" % (variant, n, json.dumps(first["sched"]))})
            else:
                st = tlc_mc("MC_LazyCache", consts, emit_path=beh, tag="MC_LazyCache_" + tag, workers=4)
            res.coverage["states"] += st["distinct"]
            res.coverage["transitions"] += st["states"]
            out = fresh("C18", "lc_" + tag)
            infl = os.path.join(out, "inflight")
            skip = 0
            while True:
                rc, o, err = run_vh(exe, ["lc-replay", "--beh", beh, "--variant", variant, "--out", out, "--skip-to", skip], inflight=infl, timeout=1200)
                if rc == 0:
                    break
                cid, hx = read_inflight(infl)
                if cid is None or (rc > 0 and rc not in (101, 134)):
                    raise ToolError("lc-replay failed rc=%s %s" % (rc, err[-500:]))
                line = bytes.fromhex(hx).decode("utf-8", "replace")
                res.add_mismatch({"suite": "lc-replay", "class": "crash", "variant": variant, "prog": ps, "rc": rc, "schedule_line": line,
                                  "why": "process died (rc %s) while replaying schedule %s of %s: %s" % (rc, cid, tag, line[:300])})
                skip = cid + 1
                if skip > 5000 or len(res.violations) > 30:
                    break
            sp = os.path.join(out, "summary.0.json")
            if os.path.exists(sp):
                summ = json.load(open(sp))
                for m in summ["mismatches"]:
                    res.add_mismatch(m)
                res.coverage["evaluations"] += summ["schedules"]
                res.coverage["traces_validated_against_impl"] += summ["schedules"]
                res.coverage["samples"] += summ["samples"][:1]
                res.coverage.setdefault("replay", {})[tag] = {k: summ[k] for k in ("schedules", "injected", "prims")}
    res.coverage["distinct_nontrivial"] = res.coverage["traces_validated_against_impl"]
    res.coverage["exhaustive"] = True
    return res.finish()


def simd_tables():
    d = wdir("beh")
    path = os.path.join(d, "simd.ndjson")
    stats_p = path + ".stats"
    src = [os.path.join(vlib.TLA, f) for f in ("Simd.tla", "MC_Simd.tla")]
    stamp = "".join(str(os.path.getmtime(f)) for f in src)
    if os.path.exists(path) and os.path.exists(stats_p):
        st = json.load(open(stats_p))
        if st.get("stamp") == stamp:
            st["reused_from_cache"] = True      # same specification files (mtime stamp): the emitted behaviours of the earlier TLC run are reused
            return path, st
    st = tlc_mc("MC_Simd", {"EmitOn": "TRUE"}, emit_path=path, tag="MC_Simd", workers=8)
    st["stamp"] = stamp
    st.pop("log_tail", None)
    json.dump(st, open(stats_p, "w"))
    return path, st


def _sort_members(x):
    if isinstance(x, dict):
        x = {k: _sort_members(v) for k, v in x.items()}
        if isinstance(x.get("m"), list) and x.get("t") == "obj":
            x["m"] = sorted(x["m"], key=lambda kv: json.dumps(kv))
        return x
    if isinstance(x, list):
        return [_sort_members(v) for v in x]
    return x


def diff_traces(res, label, files_a, files_b, cap=5):
    """the two builds ran the same recorder with the same seed: every recorded event must be identical"""
    n = same = 0
    reported = 0
    for fa, fb in zip(files_a, files_b):
        with open(fa) as a, open(fb) as b:
            la, lb = a.readlines(), b.readlines()
        if len(la) != len(lb):
            res.add_mismatch({"suite": "backend-diff", "class": "backend-diff", "label": label, "why": "%s: the two builds recorded %d vs %d events in %s" % (label, len(la), len(lb), os.path.basename(fa))})
        for i, (x, y) in enumerate(zip(la, lb)):
            n += 1
            if x == y:
                same += 1
                continue
            ex, ey = json.loads(x), json.loads(y)
            if ex.get("ev") == "schema" and _sort_members(ex) == _sort_members(ey):
                same += 1        # get_by_schema fills a hash map with a per-process random state: member order of its result is not an observable of the backend
                continue
            if reported >= cap:
                continue
            reported += 1
            keys = sorted(k for k in set(ex) | set(ey) if ex.get(k) != ey.get(k))
            sub = {}
            for k in keys:
                if isinstance(ex.get(k), dict) and isinstance(ey.get(k), dict):
                    sub[k] = {kk: [ex[k].get(kk), ey[k].get(kk)] for kk in set(ex[k]) | set(ey[k]) if ex[k].get(kk) != ey[k].get(kk)}
                else:
                    sub[k] = [ex.get(k), ey.get(k)]
            lit = bytes(ex.get("lit", ex.get("b", []))) if isinstance(ex.get("lit", ex.get("b", [])), list) else b""
            res.add_mismatch({"suite": "backend-diff", "class": "backend-diff", "label": label, "ev": ex.get("ev"), "bytes_hex": lit.hex(), "bytes_lossy": lit.decode("utf-8", "replace"),
                              "differs": json.loads(json.dumps(sub))if len(json.dumps(sub)) < 4000 else {"fields": keys}, "trace_file": fa, "other_file": fb, "line_no": i + 1,
                              "why": "%s: event %d of %s differs between the native (AVX2/PCLMUL) and the baseline x86-64 build in %s" % (label, i + 1, os.path.basename(fa), keys)})
    return n, same


def check_C17(tier, seed):
    res = Result("C17", tier, seed, "model_checking")
    res.coverage["rule"] = ("(1) Simd.tla defines every vector primitive lane-wise (eq / unsigned le / signed gt, le; mask or/and; bitmask; first_offset, before, all_zero, clear_high_bits; "
                            "prefix xor; whitespace classifier; 16-digit reader). TLC emits tables (every byte value in every lane at widths 16/32/64 against the scanner constants, mask "
                            "patterns, whitespace grids, digit runs x terminators x need) that are replayed on: the backend each build selects (AVX2 and SSE2 in the native build; SSE2 with "
                            "composed 256/512 in the baseline build), the portable v128->v256->v512 chain and both arch helper sets (x86_64 and fallback, compiled from /repo's sources). "
                            "(2) the class-string behaviours of MC_JsonText are replayed in the baseline build (verdict, value, panic) and the recorders of C02/C03/C20, C09, C10-C14, C05/C06 and C07 "
                            "run with identical seeds in both builds: the traces must be byte-identical and the baseline traces are validated by the same TLC trace specifications")
    beh, st = simd_tables()
    res.coverage["states"] += st["distinct"]
    res.coverage["transitions"] += st["states"]
    res.coverage.setdefault("tlc", {})["MC_Simd"] = {k: st[k] for k in ("states", "distinct", "seconds")}
    exes = {v: build_harness(variant=v) for v in ("native", "baseline")}
    for v, exe in exes.items():
        out = fresh("C17", "sd_" + v)
        rc, o, err = run_vh(exe, ["sd-replay", "--beh", beh, "--out", out])
        if rc != 0:
            raise ToolError("sd-replay (%s) failed rc=%s %s" % (v, rc, err[-400:]))
        summ = json.load(open(os.path.join(out, "summary.0.json")))
        for m in summ["mismatches"]:
            m["build"] = v
            res.add_mismatch(m)
        res.coverage["evaluations"] += summ["evaluations"]
        res.coverage["traces_validated_against_impl"] += summ["cases"]
        res.coverage.setdefault("replay", {})["sd_" + v] = {k: summ[k] for k in ("cases", "evaluations", "per_backend", "native")}
    # (2a) the exhaustive class-string behaviours in the baseline build
    summ = jt_replay("C17", tier, seed, res, exe=exes["baseline"], classes=("verdict", "value", "inconsistent", "panic", "crash"))
    # (2b) identical recorder runs in both builds
    q = tier == QUICK
    pairs = {}
    for v in ("native", "baseline"):
        p = {}
        if v == "baseline":
            p["jt"] = jt_record_validate("C17", tier, seed, res, 3000 if q else 150000, exe=exes[v], checks=("verdict", "value", "errpos", "panic"), label="jt_" + v)
            p["lg"] = lg_record_validate("C17", tier, seed, res, 4000 if q else 150000, ("c10", "c11", "c12", "c14", "latch", "stream", "panic"), exe=exes[v], label="lg_" + v)
            def gv(sub, args, mod, label):
                r = generic_record_validate("C17", res, sub, args, mod, {}, label + "_" + v, variant=v)
                return r["_files"] if r else None
        else:
            p["jt"] = record_only(exes[v], "jt-record", ["--seed", seed, "--n", 3000 if q else 150000, "--beh", jt_behaviours(tier)[0], "--tables", tables()], "C17", "jt_" + v)
            p["lg"] = record_only(exes[v], "lg-record", ["--seed", seed, "--n", 4000 if q else 150000], "C17", "lg_" + v)
            def gv(sub, args, mod, label):
                return record_only(exes[v], sub, args, "C17", label + "_" + v)
        p["st"] = gv("st-record", ["--seed", seed, "--n", 3000 if q else 200000, "--mode", "sweep"], "Trace_Strings", "st")
        p["cp"] = gv("st-record", ["--seed", seed, "--n", 211 if q else 7, "--mode", "codepoints"], "Trace_Strings", "cp")
        p["ser"] = gv("sr-record", ["--seed", seed, "--n", 1500 if q else 80000, "--mode", "ser"], "Trace_Ser", "ser")
        p["rt"] = gv("sr-record", ["--seed", seed, "--n", 1500 if q else 80000, "--mode", "rt"], "Trace_Ser", "rt")
        p["nm"] = gv("nm-record", ["--seed", seed, "--n", 3000 if q else 150000, "--mode", "parse"], "Trace_Numbers", "nm")
        p["nw"] = gv("nm-record", ["--seed", seed, "--n", 3000 if q else 150000, "--mode", "write"], "Trace_Numbers", "nw")
        p["lz"] = gv("lz-record", ["--seed", seed, "--n", 1500 if q else 60000], "Trace_Lazy", "lz")
        p["sk"] = gv("sk-record", ["--seed", seed, "--n", 1500 if q else 60000], "Trace_Skipper", "sk")
        pairs[v] = p
    tot = eq = 0
    for label, fa in pairs["native"].items():
        fb = pairs["baseline"].get(label)
        if not fa or not fb:
            if not fa:
                res.add_mismatch({"suite": "backend-diff", "class": "crash", "label": label, "why": "the native build did not complete the %s recorder" % label})
            continue
        n, same = diff_traces(res, label, fa, fb)
        tot += n
        eq += same
        res.coverage.setdefault("backend_diff", {})[label] = {"events": n, "identical": same}
    res.coverage["evaluations"] += tot
    res.coverage["exhaustive"] = True
    return res.finish()


def record_only(exe, sub, args, prop, label, shards=16):
    out = fresh(prop, label)
    rc, o, err = run_vh(exe, [sub, "--out", os.path.join(out, "trace"), "--shards", shards] + args, inflight=os.path.join(out, "inflight"))
    if rc != 0:
        return None
    return [os.path.join(out, "trace.%d.ndjson" % i) for i in range(shards)]


def check_C07(tier, seed):
    res = Result("C07", tier, seed, "model_checking")
    res.coverage["rule"] = ("literal families (small grammar strings over -+019.eE; 1..800 digits; every power of ten -400..400; exact midpoints between adjacent doubles and their neighbours; "
                            "19/20/39-digit integer boundaries of every width; fraction digits at every alignment of the 16-digit reader; zero-padded and huge exponents; overflow/underflow "
                            "boundaries; shortest representations of random doubles and subnormals) parsed into Value, Number, f64, f32, RawNumber, sonic_number and 10 integer widths "
                            "(scalar, sequence element, map key); TLC decides grammar, classification, finiteness, integer ranges and exact round-to-nearest-even with base-1000 limb arithmetic")
    generic_record_validate("C07", res, "nm-record", ["--seed", seed, "--n", 6000 if tier == QUICK else 300000, "--mode", "parse"], "Trace_Numbers", {}, "parse")
    generic_record_validate("C07", res, "nm-record", ["--seed", seed, "--n", 0, "--mode", "pow10grid"], "Trace_Numbers", {}, "pow10grid")
    return res.finish()


def check_C08(tier, seed):
    res = Result("C08", tier, seed, "model_checking")
    res.coverage["rule"] = ("f64 sampled over every exponent, around powers of two and ten, subnormals and signed zeros; random f32; integers of every width (boundaries and random): "
                            "to_string -> TLC checks number grammar, that the text denotes exactly x (correct rounding), and the value read back (text route and DOM route) is bit-identical; "
                            "raw numbers reproduce their literal (C07 trace); thorough tier adds the exhaustive 2^32 f32 parametric replay")
    generic_record_validate("C08", res, "nm-record", ["--seed", seed, "--n", 8000 if tier == QUICK else 400000, "--mode", "write"], "Trace_Numbers", {}, "write")
    generic_record_validate("C08", res, "nm-record", ["--seed", seed, "--n", 0, "--mode", "pow10write"], "Trace_Numbers", {}, "pow10write")
    # raw numbers: capture from bare / quoted literals, verbatim re-emission, accessors (judged by the parse events)
    generic_record_validate("C08", res, "nm-record", ["--seed", seed + 8, "--n", 2000 if tier == QUICK else 100000, "--mode", "parse"], "Trace_Numbers", {}, "rawnumbers")
    exe = build_harness()
    stride = 4099 if tier == QUICK else 1
    rc, o, err = run_vh(exe, ["f32-sweep", "--stride", stride], timeout=7200)
    if rc != 0:
        raise ToolError("f32 sweep failed: " + err[-300:])
    sw = json.loads(o.strip().splitlines()[-1])
    res.coverage.setdefault("replay", {})["f32_sweep"] = {"values": sw["values"], "stride": stride}
    res.coverage["evaluations"] += sw["values"]
    for b in sw["bad"]:
        res.add_mismatch({"suite": "f32-sweep", "class": "roundtrip", "bits": b, "why": "f32 with bits %s does not read back bit-identically from its serialisation" % b})
    return res.finish()


def writer_replay(prop, tier, res):
    """Writer.tla: every call sequence {write, reserve+commit, flush} over the writer stacks (every buffering choice of io::BufWriter,
    failing sinks): InOrder / AfterFlush / FailingSinkFails are TLC invariants; every maximal sequence is replayed through the public WriteExt API"""
    d = wdir("beh")
    path = os.path.join(d, "writer.ndjson")
    stats_p = path + ".stats"
    src = [os.path.join(vlib.TLA, f) for f in ("Writer.tla", "MC_Writer.tla", "MC_Writer.cfg")]
    stamp = "".join(str(os.path.getmtime(f)) for f in src)
    st = None
    if os.path.exists(path) and os.path.exists(stats_p):
        st = json.load(open(stats_p))
        st = dict(st, reused_from_cache=True) if st.get("stamp") == stamp else None
    if st is None:
        st = tlc_mc("MC_Writer", {"EmitOn": "TRUE"}, emit_path=path, tag="MC_Writer", workers=4)
        st["stamp"] = stamp
        st.pop("log_tail", None)
        json.dump(st, open(stats_p, "w"))
    exe = build_harness()
    out = fresh(prop, "writer")
    rc, o, err = run_vh(exe, ["wr-replay", "--beh", path, "--out", out])
    if rc != 0:
        raise ToolError("wr-replay failed rc=%s %s" % (rc, err[-300:]))
    summ = json.load(open(os.path.join(out, "summary.0.json")))
    for m in summ["mismatches"]:
        res.add_mismatch(m)
    c = res.coverage
    c["states"] += st["distinct"]
    c["transitions"] += st["states"]
    c["evaluations"] += summ["behaviours"]
    c["traces_validated_against_impl"] += summ["behaviours"]
    c.setdefault("tlc", {})["MC_Writer"] = {k: st[k] for k in st if k in ("states", "distinct", "seconds", "emitted", "reused_from_cache")}
    c.setdefault("replay", {})["writer"] = {"behaviours": summ["behaviours"], "per_stack": summ["per_stack"]}


def check_C05(tier, seed):
    res = Result("C05", tier, seed, "model_checking")
    res.coverage["rule"] = ("values of a generic tree type whose Serialize impl issues every serde call shape (seq/map with and without known length, tuple, struct, the four variant shapes, newtype, "
                            "Option, unit, map keys of string/integer/bool/char kind, all integer widths, finite and non-finite floats) and strings of every length 0..1100 with special "
                            "characters at random positions, one third of them placed against an inaccessible page; 9 compact writers, 3 pretty writers and sinks failing after n bytes. "
                            "TLC checks: output = SerText(Denotes(output)) (well-formed, compact, exact escaping), Denotes(output) matches the value's data model, all writers agree, "
                            "pretty = PrettyText, failing sink => Err and the bytes written are a prefix")
    generic_record_validate("C05", res, "sr-record", ["--seed", seed, "--n", 3000 if tier == QUICK else 150000, "--mode", "ser"], "Trace_Ser", {}, "ser")
    # the same recorder in a plain optimised build (no debug assertions): the string escaper reads its source directly there
    # (cfg(not(debug_assertions))), so the strings ending against the inaccessible page exercise its page-crossing logic
    generic_record_validate("C05", res, "sr-record", ["--seed", seed + 5, "--n", 2500 if tier == QUICK else 150000, "--mode", "ser"], "Trace_Ser", {}, "ser_fast", profile="fast")
    writer_replay("C05", tier, res)
    return res.finish()


def check_C06(tier, seed):
    res = Result("C06", tier, seed, "model_checking")
    res.coverage["rule"] = ("generated well-formed documents (duplicate keys, escapes, all number shapes): t -> DOM -> s -> DOM -> s2; TLC checks that the DOM dump is the denotation of t AND of s "
                            "(member order, duplicates, exact integers, bit-exact floats), s is compact canonical text, s2 = s, Display = to_string = to_vec, pretty = PrettyText(Denotes(s)), and "
                            "that raw-number mode reproduces every number literal verbatim; the sort_keys build is checked by a second harness variant in the thorough tier")
    generic_record_validate("C06", res, "sr-record", ["--seed", seed, "--n", 4000 if tier == QUICK else 200000, "--mode", "rt"], "Trace_Ser", {}, "rt")
    # the same round trips through a harness built with sonic-rs's sort_keys feature
    generic_record_validate("C06", res, "sr-record", ["--seed", seed + 6, "--n", 2500 if tier == QUICK else 100000, "--mode", "rt"], "Trace_Ser", {}, "rt_sort_keys", features=("sort_keys",))
    # ... and one built with its arbitrary_precision feature (from_slice keeps every number literal verbatim)
    generic_record_validate("C06", res, "sr-record", ["--seed", seed + 7, "--n", 1500 if tier == QUICK else 80000, "--mode", "rt"], "Trace_Ser", {}, "rt_arbitrary_precision", features=("arbitrary_precision",))
    return res.finish()


def serde_behaviours():
    d = wdir("beh")
    path = os.path.join(d, "serde.ndjson")
    stats_p = path + ".stats"
    src = [os.path.join(vlib.TLA, f) for f in ("Serde.tla", "MC_Serde.tla", "Numbers.tla")]
    stamp = "".join(str(os.path.getmtime(f)) for f in src)
    if os.path.exists(path) and os.path.exists(stats_p):
        st = json.load(open(stats_p))
        if st.get("stamp") == stamp:
            st["reused_from_cache"] = True      # same specification files (mtime stamp): the emitted behaviours of the earlier TLC run are reused
            return path, st
    st = tlc_mc("MC_Serde", {"EmitOn": "TRUE"}, emit_path=path, tag="MC_Serde", workers=8)
    st["stamp"] = stamp
    st.pop("log_tail", None)
    json.dump(st, open(stats_p, "w"))
    return path, st


def split_model_errors(res, prefix):
    """a trace line rejected only for "model" means the specification disagrees with serde_json: the model misrepresents
    the contract, which is a tool error, never a violation"""
    model = [v for v in res.violations if v.get("ep") in ('["model"]',)]
    if model:
        for v in model:
            sys.stderr.write("MODEL-ERROR %s\n" % json.dumps(v.get("event"))[:600])
        raise ToolError("%s: the Serde model disagrees with serde_json on %d recorded cases (see above); nothing was decided" % (prefix, len(model)))


def check_C04(tier, seed):
    res = Result("C04", tier, seed, "model_checking")
    res.coverage["rule"] = ("TLC enumerates Shapes(T) (matching, near-matching and mismatching JSON values: scalar universe, one-step mutations of matching values, integer boundaries of every "
                            "width incl. 128-bit, map-key spellings) for 44 registered Rust types with the verdict of Accepts(T, v); each pair is deserialized by sonic-rs (from_slice, from_str) "
                            "and serde_json and compared for accept/reject and value equality; the specification's verdict is the third opinion (disagreement with serde_json = tool error). "
                            "Recorded mutated texts per type are validated the same way by TLC")
    beh, st = serde_behaviours()
    exe = build_harness()
    out = fresh("C04", "ty")
    rc, o, err = run_vh(exe, ["ty-replay", "--beh", beh, "--out", out], inflight=os.path.join(out, "inflight"))
    if rc != 0:
        raise ToolError("ty-replay failed rc=%s %s" % (rc, err[-400:]))
    summ = json.load(open(os.path.join(out, "summary.0.json")))
    if summ["model_errors"]:
        for m in summ["model_errors"][:10]:
            sys.stderr.write("MODEL-ERROR %s\n" % json.dumps(m))
        raise ToolError("the Serde model disagrees with serde_json on %d emitted cases; nothing was decided" % len(summ["model_errors"]))
    for m in summ["mismatches"]:
        res.add_mismatch(m)
    c = res.coverage
    c["states"] += st["distinct"]
    c["transitions"] += st["states"]
    c["evaluations"] += summ["cases"]
    c["distinct_nontrivial"] += summ["accepted"]
    c["traces_validated_against_impl"] += summ["cases"]
    c["samples"] += summ["samples"][:3]
    c.setdefault("replay", {})["ty"] = {k: summ[k] for k in ("cases", "accepted", "per_type")}
    generic_record_validate("C04", res, "ty-record", ["--seed", seed, "--n", 6000 if tier == QUICK else 300000, "--mode", "de"], "Trace_Serde", {}, "de")
    split_model_errors(res, "C04")
    res.coverage["exhaustive"] = True
    return res.finish()


def check_C19(tier, seed):
    res = Result("C19", tier, seed, "model_checking")
    res.coverage["rule"] = ("arbitrary values of 43 registered types: to_string and to_value, from_str and from_value; TLC checks that the DOM produced by to_value is the denotation of the text "
                            "(order-insensitive), both routes read back the original value, DOM equality with the parsed text holds in both argument orders; pairs of documents: equality is "
                            "reflexive, symmetric and equals order-insensitive structural equality of the dumps")
    generic_record_validate("C19", res, "ty-record", ["--seed", seed, "--n", 6000 if tier == QUICK else 300000, "--mode", "conv"], "Trace_Serde", {}, "conv")
    generic_record_validate("C19", res, "ty-record", ["--seed", seed + 19, "--n", 4000 if tier == QUICK else 200000, "--mode", "eq"], "Trace_Serde", {}, "eq")
    return res.finish()


def replay(prop, path):
    """bin/check <prop> --replay <file>: every check is deterministic in (tree, seed, tier), so the recorded violation is replayed by
    running the same check with the recorded seed and tier and looking for the same violation record (same content hash).
    exit 1 + VIOLATION line when it reproduces, 0 when the property now holds on that input."""
    v = json.load(open(path))
    if v.get("property") != prop:
        raise ToolError("replay file belongs to property %s" % v.get("property"))
    want = os.path.basename(path)
    fn = globals()["check_" + prop]
    import io, contextlib
    buf = io.StringIO()
    with contextlib.redirect_stdout(buf):
        rc = fn(v.get("tier", "quick"), int(v.get("seed", 1)))
    out = buf.getvalue()
    hit = [l for l in out.splitlines() if l.startswith("VIOLATION") and want in l]
    if hit:
        print(hit[0])
        print("  reproduced: " + str(v.get("why", ""))[:300])
        return 1
    other = [l for l in out.splitlines() if l.startswith("VIOLATION")]
    if other:
        # the recorded case is among more than 10 violations or changed shape: report what the same run shows
        print(other[0])
        print("  the recorded violation was not among the first reported ones; the same seed still violates the property")
        return 1
    print("not reproduced: the check with seed %s tier %s reports no violation" % (v.get("seed"), v.get("tier", "quick")))
    return 0
