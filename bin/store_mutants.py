#!/usr/bin/env python3
"""store_mutants.py <PROP> '<json: {"1": [...detected_by...], "2": [...], "3": [...]}>'  : copy /tmp/mut/<PROP>-out/m*/ into /verif/seeded"""
import json, sys, os, shutil
P = sys.argv[1]; det = json.loads(sys.argv[2])
SRC = sys.argv[3] if len(sys.argv) > 3 else P          # e.g. C15r2 for a second round
OFF = int(sys.argv[4]) if len(sys.argv) > 4 else 0     # second round: 3 (stored as m4..m6)
for k in ("1", "2", "3"):
    src = "/tmp/mut/%s-out/m%s" % (SRC, k); dst = "/verif/seeded/%s-m%d" % (P, int(k) + OFF)
    os.makedirs(dst, exist_ok=True)
    for f in ("patch.diff", "demo.rs", "README.md"):
        shutil.copy(os.path.join(src, f), os.path.join(dst, f))
    c = json.load(open(os.path.join(src, "confirm.json")))
    title = open(os.path.join(src, "README.md")).read().splitlines()[0].lstrip("# ").strip()
    meta = {"property": P, "id": "%s-m%d" % (P, int(k) + OFF), "summary": title, "needs": "see README.md",
            "confirmed": {"how": "bin/confirm_mutant.sh in a scratch worktree under /tmp (removed afterwards): demo copied to tests/, run without and with the patch; then the full suite with the patch",
                          "demo_without_patch_rc": c["demo_without_patch_rc"], "demo_with_patch_rc": c["demo_with_patch_rc"], "suite_with_patch_rc": c["suite_with_patch_rc"], "suite": c["suite"].strip()},
            "detected_by": det.get(k, [])}
    json.dump(meta, open(os.path.join(dst, "meta.json"), "w"), indent=1)
print("stored", P)
