#!/bin/bash
# seedtest.sh <patch.diff> <check> [<check> ...]  : apply a seeded change to /repo, run checks, undo; prints which detect it
P=$1; shift
git -C /repo apply "$P" || { echo "patch does not apply"; exit 2; }
for c in "$@"; do
  out=$(/verif/bin/check $c 2>&1); rc=$?
  n=$(echo "$out" | grep -c "^VIOLATION")
  echo "  $c rc=$rc violations=$n $(echo "$out" | grep -m1 'why:' | cut -c1-150)"
done
git -C /repo checkout -- .
