#!/usr/bin/env python3
"""Regenerates MANIFEST.json from the table below (kept valid at all times)."""
import json, os
V = os.path.dirname(os.path.dirname(os.path.abspath(__file__)))
T = "TLA+ spec + TLC; "
CHECKS = {
 "C01": ("exploration", "The spec contributes the input space (every explored class string concretised, leaf completions, block-edge runs, random/mutated documents) and the statement 'every call returns Ok or Err'; the harness observes panics, aborts/signals (crash-isolated workers, overflow checks and std UB precondition checks on), and heap growth across a repeated case.", "no abstract-state counterpart of memory safety: silent over-reads inside an allocation are out of reach", T + "spec-generated inputs replayed with crash/panic/leak observation", "5 C01"),
 "C02": ("model_checking", "TLC checks operational PDA == declarative RFC 8259 grammar (strict and validate-and-skip machines) for every class string up to the bound; every explored text is replayed, concretised, into 25 entry points; recorded random/mutated documents are validated by TLC against the byte-level machine.", "bounded: class strings <= 8 (quick) / 9 (thorough), nesting <= 3 in the exhaustive model; trusts TLC, the class table exported from the spec, and the concretiser", T + "exhaustive enumeration, spec->impl replay, impl->spec trace validation", "5 C02"),
 "C03": ("model_checking", "Denotes(text) from the spec's payload layer vs a walk of the returned Value through the public read API: every accepted explored text on the in-place, embedded, stream, raw-number and lossy paths (S->I), recorded documents with TLC evaluating Denotes(bytes) incl. exact correctly-rounded floats (I->S).", "floats in S->I compared by classification only (exactness via I->S and C07)", T + "spec->impl replay of denoted values + trace validation", "5 C03"),
 "C09": ("model_checking", "Every decoder family (in-place, copying, borrowing, key, map-key, skip-only) x {strict, lossy} on literals swept over special character x position 0..130 x length 0..200 x start offset 0..64 x what follows, and on the \\uXXXX / surrogate-pair table (exhaustive over all 1,114,112 code points in the thorough tier): TLC decodes each recorded literal with the payload layer of JsonText (escapes, UTF-8, surrogate pairing, U+FFFD repair) and compares text, Ok/Err and borrowed-ness.", "quick tier samples the grid (6000 literals) and every 53rd code point; lossy repair of invalid UTF-8 is specified as from_utf8_lossy on the document bytes", T + "trace validation of recorded decodes against the spec decoder", "5 C09"),
 "C10": ("model_checking", "Recorded get/get_unchecked/carrier/pointer calls validated by TLC: Ok/Err, span by byte offset and error category must equal Lookup(Denotes(bytes), path), first member wins; block-edge stress documents force the bitmap skippers across 32/64-byte edges.", "sampled documents (generated, mutated, stress); spans compared by content when a carrier inlines a copy", T + "trace validation of recorded calls against Lookup on the denoted value", "5 C10"),
 "C11": ("model_checking", "Recorded get_many / get_many_unchecked calls validated by TLC against one Lookup per path: slot order, filled slot = span, empty slot = unknown key, all filled when all resolve.", "duplicate-free documents as the property states; path sets are shape-consistent", T + "trace validation", "5 C11"),
 "C12": ("model_checking", "Recorded iterator and stream runs validated by TLC: items = Members(first value) then end; on malformed input the members completed before the lax machine rejects, exactly one error, then nothing (latch).", "byte carriers validate UTF-8 of the whole input first (modelled as Utf8Gate)", T + "trace validation", "5 C12"),
 "C14": ("model_checking", "For arbitrary bytes TLC checks that every value handed out by checked get/get_many/iterators is a well-formed value inside the input and that the lax machine, run over the preceding bytes without rejecting, is exactly at the target (one open container per path element).", "sampled garbage (mutations, truncations, insertions, stress documents)", T + "trace validation against the operational characterisation of a checked walk", "5 C14"),
 "C20": ("model_checking", "Every rejected recorded document on every entry point: offset <= length, (line, column) = LineCol(input, offset), displayable, no lookup category; LineCol is model-checked against a direct definition; latch of streams/iterators via C12's traces.", "wrapped entry points are judged against the wrapped input", T + "trace validation + small-scope model check of LineCol", "5 C20"),
}
NA_REASON = "check not built yet (framework under construction; see DESIGN.md section 11)"
def main():
    checks = []
    for pid in sorted(CHECKS):
        cat, text, note, tech, ref = CHECKS[pid]
        checks.append({"property_id": pid, "quick_cmd": "bin/check %s --tier quick" % pid, "thorough_cmd": "bin/check %s --tier thorough" % pid,
                       "evidence_file": "evidence/%s.json" % pid, "replay_cmd_template": "bin/check %s --replay {path}" % pid, "engine": "tlc",
                       "level_claimed": {"category": cat, "text": text, "design_ref": "DESIGN.md section " + ref}, "level_note": note, "technique": tech})
    hooks = json.load(open(os.path.join(V, "hooks.json"))) if os.path.exists(os.path.join(V, "hooks.json")) else {"source_commits": [], "add_only": True}
    m = {"version": 1, "setup_cmd": "bin/setup.sh",
         "hooks": {"guard": "sonic_rs_verif", "enable": "RUSTFLAGS=--cfg sonic_rs_verif (set by bin/vlib.py when it builds /verif/harness against /repo)",
                   "baseline_off_cmd": "cd /repo && cargo test --workspace --no-fail-fast --offline", "source_commits": hooks["source_commits"], "add_only": hooks["add_only"]},
         "engines": [{"name": "tlc", "path": "tla/", "serves_properties": sorted(CHECKS), "kind_free_text": "TLA+ specification checked with TLC (exhaustive small scope), behaviours replayed into the implementation, recorded traces validated against the specification"}],
         "checks": checks,
         "not_applicable": [{"property_id": "C%02d" % i, "reason": NA_REASON} for i in range(1, 21) if "C%02d" % i not in CHECKS],
         "notes": "properties are added to `checks` as their machinery lands"}
    json.dump(m, open(os.path.join(V, "MANIFEST.json"), "w"), indent=1)
main()
