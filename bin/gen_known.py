#!/usr/bin/env python3
"""Regenerates the `fixed` entries of known_findings.json from the fix: commits of /repo (known entries are kept by hand below)."""
import json, subprocess
PROP = {  # commit subject fragment -> (property, id)
 "skip_one underflows": ("C01", "F18"),
 "accepts input that ends inside a string": ("C02", "F19"),
 "lazy values obtained through Deserializer::deserialize": ("C02", "F20"),
 "validating skipper accepts": ("C02", "F2"),
 "sign of a negative zero": ("C07", "F12"),
 "lossy decoding swallows": ("C09", "F11"),
 "in-place DOM parser report line/column": ("C20", "F16"),
 "unchecked skipper includes trailing whitespace": ("C10", "F21"),
 "get_many panics in debug builds": ("C01", "F22"),
 "get_many miscounts": ("C01", "F23"),
 "checked get skips arbitrary bytes": ("C14", "F3"),
 "OwnedLazyValue::from(LazyValue) of true/false/null": ("C13", "F5"),
 "as_array()/as_object() of a raw OwnedLazyValue": ("C13", "F6"),
 "LazyValue::as_raw_number answers Some": ("C13", "F14"),
 "recursion limit of the serde deserializer never triggers": ("C01", "F1a"),
 "publish-once caches dereference a null witness": ("C18", "F13"),
 "io::BufWriter emits the output out of order": ("C05", "F4"),
 "Object equality is not symmetric": ("C19", "F10"),
 "loses the decoded-string race releases": ("C18", "F24"),
 "BitMask::clear_high_bits(LEN)": ("C17", "F25"),
 "map keys accept leading whitespace": ("C04", "F26"),
 "pointer_mut with an empty path": ("C15", "F8"),
 "Entry::key of an occupied entry": ("C15", "F7"),
 "IntoIter::as_slice panics": ("C15", "F9"),
 "left positioned beyond it": ("C01", "F28"),
 "from_value cannot produce a Value": ("C19", "F29"),
 "tuple variant without fields": ("C19", "F30"),
 "with utf8_lossy, from_slice into a Value": ("C09", "F31"),
 "Display of an OwnedLazyValue": ("C13", "F32"),
 "to_lazyvalue of true, false or null": ("C13", "F33"),
 "from_value cannot produce a RawNumber": ("C19", "F35"),
 "to_value of a lazy value stores its private token": ("C19", "F37"),
 "raw number beyond the range of f64) as None": ("C19", "F36"),
}
KNOWN = []
out = []
log = subprocess.check_output(["git", "-C", "/repo", "log", "--format=%h\t%s"]).decode().splitlines()
for line in reversed(log):
    h, subj = line.split("\t", 1)
    if not subj.startswith("fix:"):
        continue
    for frag, (prop, fid) in PROP.items():
        if frag in subj:
            out.append({"status": "fixed", "property": prop, "id": fid, "commit": h, "what": subj[4:].strip(),
                        "line": "fixed: property=%s %s %s" % (prop, h, subj[4:].strip())})
            break
    else:
        raise SystemExit("fix commit without a property mapping: " + subj)
try:
    old = json.load(open("/verif/known_findings.json"))
    KNOWN = [k for k in old if k.get("status") == "known"]
except Exception:
    pass
json.dump(KNOWN + out, open("/verif/known_findings.json", "w"), indent=1)
print(len(out), "fixed entries,", len(KNOWN), "known")
