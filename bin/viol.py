#!/usr/bin/env python3
import json,glob,os,sys,collections
prop=sys.argv[1]
fs=sorted(glob.glob('/verif/work/replay/%s-*.json'%prop),key=os.path.getmtime)
c=collections.Counter()
for f in fs:
    m=json.load(open(f))
    print(m.get('suite'),m.get('ev'),m.get('ep'),m.get('kind'), repr(m.get('bytes_lossy'))[:int(sys.argv[2]) if len(sys.argv)>2 else 90], json.dumps(m.get('path')), json.dumps(m.get('impl'))[:260])
