#!/usr/bin/env python3
import json,collections,glob,sys
prop=sys.argv[1]
try:
    s=json.load(open('/verif/work/%s/replay/summary.json'%prop))
    c=collections.Counter(); ex={}
    for m in s['mismatches']:
        k=(m['ep'],m['why'][:60]); c[k]+=1; ex.setdefault(k,m)
    for k,n in c.most_common():
        m=ex[k]; print(n,k,repr(m['bytes_lossy']),m['text'],json.dumps(m['detail'])[:100])
except Exception as e: print("no replay summary",e)
ev=json.load(open('/verif/evidence/%s.json'%prop))
print("violations",ev['violations'],"wall",ev['wall_s'])
