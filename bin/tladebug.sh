#!/bin/bash
# tladebug.sh <trace-file> <line> '<TLA expression over r == Rec[line]>'   (module context: Trace_LazyGet)
TF=$1; LN=$2; EXPR=$3
cd /verif/work/dbg
cat > Dbg.tla <<EOT
---- MODULE Dbg ----
EXTENDS Trace_LazyGet
r == Rec[$LN]
ASSUME PrintT(<<"DBG", $EXPR>>)
====
EOT
cat > Dbg.cfg <<EOT
CONSTANTS
  MaxDepth = 100000
  Checks = {"c10","c11","c12","c14","latch","stream","panic"}
EOT
TRACE=$TF JAVA_TOOL_OPTIONS="-Xss1g" java -cp /opt/veriftools/tla/tla2tools.jar:/opt/veriftools/tla/CommunityModules-deps.jar -DTLA-Library=/verif/tla tlc2.TLC -config Dbg.cfg Dbg.tla 2>&1 | grep -A30 '^<<"DBG"' | head -60
