"""Driver library: runs TLC on the specification, the Rust conformance harness on /repo's
working tree, matches mismatches against known_findings.json and writes evidence files."""
import json, os, re, subprocess, sys, time, hashlib, shutil, glob

VERIF = os.path.dirname(os.path.dirname(os.path.abspath(__file__)))
TLA = os.path.join(VERIF, "tla")
HARNESS = os.path.join(VERIF, "harness")
WORK = os.path.join(VERIF, "work")
EVID = os.path.join(VERIF, "evidence")
JAR = "/opt/veriftools/tla/tla2tools.jar:/opt/veriftools/tla/CommunityModules-deps.jar"
NCPU = os.cpu_count() or 4


class ToolError(Exception):
    pass


def log(*a):
    print("[check]", *a, file=sys.stderr, flush=True)


def wdir(*parts):
    d = os.path.join(WORK, *parts)
    os.makedirs(d, exist_ok=True)
    return d


def fresh(*parts):
    d = os.path.join(WORK, *parts)
    shutil.rmtree(d, ignore_errors=True)
    os.makedirs(d, exist_ok=True)
    return d


# ----------------------------------------------------------------------------- harness build
_built = {}


def build_harness(features=(), variant="native", nightly=False, profile="release"):
    """cargo build of the harness (path dependency => sonic-rs is rebuilt from /repo's tree).
    profile "release" is the hardened one (overflow checks, debug assertions and std's unsafe-precondition checks on);
    profile "fast" is a plain optimised build (all of them off): the code paths under cfg(not(debug_assertions)) only exist there."""
    keyv = (tuple(features), variant, profile)
    if keyv in _built:
        return _built[keyv]
    env = dict(os.environ)
    env["CARGO_NET_OFFLINE"] = "true"
    tdir = "target" if variant == "native" else "target-" + variant
    flags = ["--cfg", "sonic_rs_verif", "--check-cfg", "cfg(sonic_rs_verif)"]
    if variant == "native":
        flags += ["-C", "target-cpu=native"]
    elif variant == "v3":
        flags += ["-C", "target-cpu=x86-64-v3", "-C", "target-feature=+pclmulqdq"]
    elif variant == "baseline":
        pass
    env["CARGO_ENCODED_RUSTFLAGS"] = "\x1f".join(flags)
    if features:
        tdir += "-" + "-".join(sorted(features))
    cmd = ["cargo", "build", "--offline", "--target-dir", tdir] + (["--release"] if profile == "release" else ["--profile", profile])
    if features:
        cmd += ["--features", ",".join(features)]
    t0 = time.time()
    p = subprocess.run(cmd, cwd=HARNESS, env=env, stdout=subprocess.PIPE, stderr=subprocess.STDOUT, text=True)
    if p.returncode != 0:
        sys.stderr.write(p.stdout[-6000:])
        raise ToolError("harness build failed")
    exe = os.path.join(HARNESS, tdir, profile, "vh")
    log("built harness %s %s %s in %.1fs" % (variant, list(features), "" if profile == "release" else profile, time.time() - t0))
    _built[keyv] = exe
    return exe


def run_vh(exe, args, timeout=3600, inflight=None, stdout_json=False, env=None):
    """Run the harness. Returns (returncode, stdout). A death by signal returns negative rc."""
    cmd = [exe] + [str(a) for a in args]
    if inflight:
        cmd += ["--inflight", inflight]
    e = dict(os.environ)
    if env:
        e.update(env)
    try:
        p = subprocess.run(cmd, stdout=subprocess.PIPE, stderr=subprocess.PIPE, text=True, timeout=timeout, env=e)
    except subprocess.TimeoutExpired:
        raise ToolError("harness timeout: " + " ".join(cmd[:3]))
    return p.returncode, p.stdout, p.stderr


def read_inflight(path):
    try:
        s = open(path).read().strip()
        cid, hx = s.split(" ", 1) if " " in s else (s, "")
        return int(cid), hx
    except Exception:
        return None, ""


# ----------------------------------------------------------------------------- TLC
def java_opts(extra=""):
    return ("-Xss512m -XX:ParallelGCThreads=4 " + extra).strip()


def write_cfg(path, template_path, consts):
    s = open(template_path).read()
    for k, v in consts.items():
        s, n = re.subn(r"(?m)^(\s*%s\s*=\s*).*$" % re.escape(k), lambda m: m.group(1) + str(v), s)
        if n == 0:
            raise ToolError("constant %s not in %s" % (k, template_path))
    open(path, "w").write(s)


def _unescape_tla(s):
    # TLC prints a TLA+ string with \" and \\ escapes
    out = []
    i = 0
    while i < len(s):
        c = s[i]
        if c == "\\" and i + 1 < len(s):
            out.append(s[i + 1])
            i += 2
        else:
            out.append(c)
            i += 1
    return "".join(out)


def tlc_mc(module, consts=None, emit_path=None, workers=None, timeout=3600, tag=None, cfg=None, xmx="16g", coverage=False, simulate=None):
    """Exhaustive TLC run. Lines <<"B", "json">> are written (unescaped) to emit_path.
    Returns dict(states, distinct, depth, seconds, emitted, coverage). A spec-level invariant
    violation is a ToolError: the model is inconsistent with itself, nothing was decided."""
    tag = tag or module
    d = fresh("tlc", tag)
    cfgp = os.path.join(d, module + ".cfg")
    write_cfg(cfgp, cfg or os.path.join(TLA, module + ".cfg"), consts or {})
    cmd = ["java", "-XX:+UseParallelGC", "-Xmx" + xmx, "-cp", JAR, "-DTLA-Library=" + TLA, "tlc2.TLC",
           "-workers", str(workers or min(NCPU, 16)), "-config", cfgp, "-metadir", os.path.join(d, "states"),
           "-noGenerateSpecTE", "-cleanup"]
    if coverage:
        cmd += ["-coverage", "1"]
    if simulate:
        # random behaviours of the same specification (num traces, depth, seed): invariants are evaluated on every state visited
        cmd += ["-simulate", "num=%d" % simulate[0], "-depth", str(simulate[1]), "-seed", str(simulate[2])]
    cmd += [os.path.join(TLA, module + ".tla")]
    env = dict(os.environ)
    env["JAVA_TOOL_OPTIONS"] = java_opts()
    t0 = time.time()
    emitted = 0
    stopped_sim = False
    tail = []
    res = {"states": 0, "distinct": 0, "depth": 0}
    out = open(emit_path, "w") if emit_path else None
    p = subprocess.Popen(cmd, cwd=d, stdout=subprocess.PIPE, stderr=subprocess.STDOUT, text=True, env=env)
    try:
        for line in p.stdout:
            if line.startswith('<<"B", "'):
                if out:
                    body = line.rstrip("\n")
                    body = body[len('<<"B", "'):body.rindex('">>')]
                    out.write(_unescape_tla(body) + "\n")
                emitted += 1
                if simulate and emitted >= simulate[0]:
                    # enough random behaviours (TLC's own num= limit is per worker): stop the simulation here
                    p.kill()
                    stopped_sim = True
                    break
                continue
            tail.append(line)
            if len(tail) > 400:
                tail = tail[-200:]
            m = re.search(r"(\d+) states generated, (\d+) distinct states found", line)
            if m:
                res["states"], res["distinct"] = int(m.group(1)), int(m.group(2))
            m = re.search(r"depth of the complete state graph search is (\d+)", line)
            if m:
                res["depth"] = int(m.group(1))
            if time.time() - t0 > timeout:
                p.kill()
                raise ToolError("TLC timeout on " + module)
        p.wait()
    finally:
        if out:
            out.close()
    txt = "".join(tail)
    res["seconds"] = round(time.time() - t0, 1)
    res["emitted"] = emitted
    res["log_tail"] = txt[-3000:]
    if "Error:" in txt or (p.returncode != 0 and not stopped_sim):
        sys.stderr.write(txt[-5000:])
        raise ToolError("TLC reported an error on %s (the specification is inconsistent or mis-configured)" % module)
    if simulate:
        # simulation mode: states visited along the random behaviours (TLC's own count when it reported one)
        ms = re.findall(r"Progress: (\d+) states checked, (\d+) traces generated", txt)
        res["traces"] = emitted
        res["distinct"] = emitted * simulate[1]
        res["states"] = int(ms[-1][0]) if ms else emitted * simulate[1]
        res["mode"] = "simulation num=%d depth=%d seed=%d" % simulate
    if not simulate and "Model checking completed. No error has been found." not in txt:
        sys.stderr.write(txt[-3000:])
        raise ToolError("TLC did not complete on " + module)
    log("TLC %s: %d distinct states, %d emitted, %.1fs" % (tag, res["distinct"], emitted, res["seconds"]))
    return res


def tlc_eval(module, timeout=600, cfg_text=""):
    """Run a constant-level module (ASSUME PrintT(..)); returns list of emitted "T" json payloads."""
    d = fresh("tlc", "eval_" + module)
    cfgp = os.path.join(d, module + ".cfg")
    open(cfgp, "w").write(cfg_text)
    cmd = ["java", "-XX:+UseParallelGC", "-cp", JAR, "-DTLA-Library=" + TLA, "tlc2.TLC", "-config", cfgp,
           "-metadir", os.path.join(d, "states"), "-noGenerateSpecTE", os.path.join(TLA, module + ".tla")]
    env = dict(os.environ)
    env["JAVA_TOOL_OPTIONS"] = java_opts()
    p = subprocess.run(cmd, cwd=d, stdout=subprocess.PIPE, stderr=subprocess.STDOUT, text=True, env=env, timeout=timeout)
    outs = []
    for line in p.stdout.splitlines():
        if line.startswith('<<"T", "'):
            body = line[len('<<"T", "'):line.rindex('">>')]
            outs.append(json.loads(_unescape_tla(body)))
    if "Error" in p.stdout and not outs:
        sys.stderr.write(p.stdout[-3000:])
        raise ToolError("TLC eval failed on " + module)
    return outs


def tables():
    """Class table exported by the specification (one source of truth for Class / Canon)."""
    path = os.path.join(wdir("tables"), "classes.json")
    src = os.path.join(TLA, "JsonText.tla")
    stamp = path + ".stamp"
    h = hashlib.sha1(open(src, "rb").read() + open(os.path.join(TLA, "Tables.tla"), "rb").read()).hexdigest()
    if os.path.exists(path) and os.path.exists(stamp) and open(stamp).read() == h:
        return path
    outs = tlc_eval("Tables", cfg_text="CONSTANT MaxDepth = 3\n")
    if not outs:
        raise ToolError("no table emitted")
    json.dump(outs[0], open(path, "w"))
    open(stamp, "w").write(h)
    return path


def tlc_trace(module, trace_files, consts=None, timeout=3600, parallel=None):
    """Validate recorded traces against a Trace_* spec. Returns (accepted_lines, rejects) where
    rejects is a list of dict(file, line_no, event, why)."""
    import concurrent.futures
    parallel = parallel or min(NCPU, 16)
    cfg_src = os.path.join(TLA, module + ".cfg")
    tol_out = []

    def one(i_tf):
        i, tf = i_tf
        d = fresh("tlc", "%s_%d" % (module, i))
        cfgp = os.path.join(d, module + ".cfg")
        write_cfg(cfgp, cfg_src, consts or {})
        cmd = ["java", "-XX:+UseSerialGC", "-Xmx3g", "-cp", JAR, "-DTLA-Library=" + TLA, "tlc2.TLC", "-workers", "1",
               "-config", cfgp, "-metadir", os.path.join(d, "states"), "-noGenerateSpecTE", "-cleanup",
               os.path.join(TLA, module + ".tla")]
        env = dict(os.environ)
        env["JAVA_TOOL_OPTIONS"] = "-Xss1g -Dtlc2.tool.queue.IStateQueue=StateDeque"
        env["TRACE"] = tf
        try:
            p = subprocess.run(cmd, cwd=d, stdout=subprocess.PIPE, stderr=subprocess.STDOUT, text=True, env=env, timeout=timeout)
        except subprocess.TimeoutExpired:
            raise ToolError("TLC trace validation timeout " + tf)
        o = p.stdout
        tolerated = []
        for tm in re.finditer(r'<<"TOLERATED", (\d+), "(.*)">>', o):
            tolerated.append((int(tm.group(1)), _unescape_tla(tm.group(2))))
        if tolerated:
            lines = open(tf).read().splitlines()
            for ln, why in tolerated[:50]:
                tol_out.append({"file": tf, "line_no": ln, "event": json.loads(lines[ln - 1]), "why": why, "tolerated": True})
        m = re.search(r'<<"TRACE-OK", (\d+)>>', o)
        if m:
            return (int(m.group(1)), None)
        m = re.search(r'<<"TRACE-REJECT", (\d+), "(.*)">>', o)
        if m:
            ln = int(m.group(1))
            why = _unescape_tla(m.group(2))
            with open(tf) as f:
                for k, line in enumerate(f, 1):
                    if k == ln:
                        ev = json.loads(line)
                        break
                else:
                    ev = None
            return (ln - 1, {"file": tf, "line_no": ln, "event": ev, "why": why})
        sys.stderr.write(o[-4000:])
        raise ToolError("TLC trace validation failed to run on " + tf)

    accepted = 0
    rejects = []
    with concurrent.futures.ThreadPoolExecutor(max_workers=parallel) as ex:
        pass
    with concurrent.futures.ThreadPoolExecutor(max_workers=parallel) as ex:
        for acc, rej in ex.map(one, list(enumerate(trace_files))):
            accepted += acc
            if rej:
                rejects.append(rej)
    # lines rejected only for tolerated (known-finding) tags: reported like rejects, validation went on past them
    return accepted, rejects + tol_out


def count_lines(path):
    n = 0
    with open(path, "rb") as f:
        for _ in f:
            n += 1
    return n


# ----------------------------------------------------------------------------- findings / evidence
def load_known():
    p = os.path.join(VERIF, "known_findings.json")
    if not os.path.exists(p):
        return []
    return json.load(open(p))


def match_known(prop, rec, known):
    """A mismatch record matches a known finding if every key of the finding's `match` equals
    (or, for *_re keys, regex-matches) the record's field."""
    for k in known:
        if k.get("status") != "known" or k.get("property") != prop:
            continue
        ok = True
        for key, want in k.get("match", {}).items():
            if key.endswith("_re"):
                got = rec.get(key[:-3])
                if got is None or not re.search(want, got if isinstance(got, str) else json.dumps(got)):
                    ok = False
                    break
            elif key.endswith("_min"):
                got = rec.get(key[:-4])
                if got is None or got < want:
                    ok = False
                    break
            else:
                if rec.get(key) != want:
                    ok = False
                    break
        if ok:
            return k
    return None


class Result:
    def __init__(self, prop, tier, seed, level):
        self.prop, self.tier, self.seed, self.level = prop, tier, seed, level
        self.t0 = time.time()
        self.violations = []
        self.known_hits = {}
        self.coverage = {"evaluations": 0, "distinct_nontrivial": 0, "states": 0, "transitions": 0,
                         "traces_validated_against_impl": 0, "samples": [], "rule": "", "exhaustive": False}
        self.assumptions = []
        self.known = load_known()
        for f in glob.glob(os.path.join(WORK, "replay", prop + "-*.json")):
            os.remove(f)

    def add_mismatch(self, rec):
        k = match_known(self.prop, rec, self.known)
        if k:
            self.known_hits.setdefault(k["id"], [k, 0])[1] += 1
        else:
            self.violations.append(rec)

    def finish(self):
        os.makedirs(EVID, exist_ok=True)
        for kid, (k, n) in self.known_hits.items():
            print("KNOWN-FINDING: property=%s %s (%s; reproduced %d times)" % (self.prop, k["what"], kid, n))
        rdir = wdir("replay")
        for i, v in enumerate(self.violations[:10]):
            h = hashlib.sha1(json.dumps(v, sort_keys=True).encode()).hexdigest()[:12]
            path = os.path.join(rdir, "%s-%s.json" % (self.prop, h))
            v = dict(v)
            v["property"] = self.prop
            v["seed"] = self.seed
            v["tier"] = self.tier
            json.dump(v, open(path, "w"), indent=1)
            print("VIOLATION property=%s replay=%s" % (self.prop, path))
            print("  why: %s" % str(v.get("why", ""))[:300])
        cov = dict(self.coverage)
        if not cov.get("distinct_nontrivial"):
            cov["distinct_nontrivial"] = cov.get("traces_validated_against_impl", 0)
        cov["known_findings_reproduced"] = {k: n for k, (_, n) in self.known_hits.items()}
        if not cov["samples"]:
            cov["samples"] = ["(none)"]
        ev = {"property_id": self.prop, "tier": self.tier, "seed": self.seed, "level": self.level,
              "coverage": cov, "assumptions": self.assumptions, "wall_s": round(time.time() - self.t0, 1),
              "violations": len(self.violations)}
        json.dump(ev, open(os.path.join(EVID, self.prop + ".json"), "w"), indent=1)
        return 1 if self.violations else 0
